use abasic_core::{Interpreter, InterpreterState};
fn run(lines: &[&str]) -> Result<Vec<String>, String> {
    let mut i = Interpreter::default();
    for l in lines { i.start_evaluating(l).map_err(|e| e.to_string())?; }
    i.start_evaluating("run").map_err(|e| e.to_string())?;
    while i.get_state() == InterpreterState::Running { i.continue_evaluating().map_err(|e| e.to_string())?; }
    Ok(i.take_output().into_iter().map(|o| o.to_string()).collect())
}
#[test]
fn blanks_after_a_quoted_data_item_are_insignificant() {
    let a = run(&["10 data \"a\":read x$:read y$", "20 data \"b\"", "30 print x$;y$"]);
    let b = run(&["10 data \"a\" :read x$:read y$", "20 data \"b\"", "30 print x$;y$"]);
    assert_eq!(a, b);
    assert_eq!(a.unwrap(), vec!["ab\n".to_string()]);
}
#[test]
fn trailing_blank_after_a_comma_is_insignificant() {
    let a = run(&["10 data 1,", "20 data 2", "30 read x,y:print x;y"]);
    let b = run(&["10 data 1, ", "20 data 2", "30 read x,y:print x;y"]);
    assert_eq!(a, b);
}
