use abasic_core::SourceFileAnalyzer;
#[test]
fn redefinition_by_an_empty_line_does_not_panic() {
    let a = SourceFileAnalyzer::analyze("10 X = 1\n10".to_string());
    for m in a.messages() { assert!(a.source_file_map().map_to_source(m).is_some()); }
}
#[test]
fn redefinition_by_an_untokenizable_line_does_not_panic() {
    let a = SourceFileAnalyzer::analyze("10 PRINT 1 +\n10 PRINT \"".to_string());
    for m in a.messages() { assert!(a.source_file_map().map_to_source(m).is_some()); }
}
