use abasic_core::{DiagnosticMessage, Interpreter, InterpreterState, SourceFileAnalyzer};
fn analyzer_errors(src: &str) -> usize {
    SourceFileAnalyzer::analyze(src.to_string()).messages().iter().filter(|m| matches!(m, DiagnosticMessage::Error(..))).count()
}
fn runs_ok(lines: &[&str]) -> bool {
    let mut i = Interpreter::default();
    for l in lines { i.start_evaluating(l).unwrap(); }
    if i.start_evaluating("run").is_err() { return false; }
    while i.get_state() == InterpreterState::Running { if i.continue_evaluating().is_err() { return false; } }
    true
}
#[test]
fn comparison_of_strings_is_a_number_for_the_checker_too() {
    // runs fine, must not be rejected
    assert!(runs_ok(&["10 a$ = \"x\"", "20 b$ = \"y\"", "30 x = a$ = b$", "40 print x"]));
    assert_eq!(analyzer_errors("10 a$ = \"x\"\n20 b$ = \"y\"\n30 x = a$ = b$\n40 print x"), 0);
    // fails at run time (number stored in a string variable), must not be accepted
    assert!(!runs_ok(&["10 s$ = \"x\"", "20 t$ = \"y\"", "30 s$ = s$ = t$"]));
    assert!(analyzer_errors("10 s$ = \"x\"\n20 t$ = \"y\"\n30 s$ = s$ = t$\n40 print s$") > 0);
}
