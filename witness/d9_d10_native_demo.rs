use abasic_core::{Interpreter, InterpreterOutput, InterpreterState};
fn drain(i: &mut Interpreter) { while i.get_state() == InterpreterState::Running { let _ = i.continue_evaluating(); } }
#[test]
fn d10_stale_reply_not_consumed_by_next_run() {
    let mut i = Interpreter::default();
    i.start_evaluating("10 input x").unwrap();
    i.start_evaluating("20 print x").unwrap();
    i.start_evaluating("run").unwrap(); drain(&mut i);
    assert_eq!(i.get_state(), InterpreterState::AwaitingInput);
    i.provide_input("42".to_string());
    i.break_at_current_location();          // host breaks before the INPUT resumes
    i.take_output();
    i.start_evaluating("run").unwrap(); drain(&mut i);
    assert_eq!(i.get_state(), InterpreterState::AwaitingInput, "the new run must ask for input itself");
}
#[test]
fn d9_failed_fn_call_at_breakpoint_leaves_no_frame() {
    let mut i = Interpreter::default();
    for l in ["10 def fna(x) = 1/0", "20 x = 5", "30 stop", "40 print x"] { i.start_evaluating(l).unwrap(); }
    i.start_evaluating("run").unwrap(); drain(&mut i);
    i.take_output();
    assert!(i.start_evaluating("print fna(7)").is_err());
    i.start_evaluating("cont").unwrap(); drain(&mut i);
    let out: Vec<String> = i.take_output().into_iter().map(|o| o.to_string()).collect();
    assert_eq!(out, vec!["5\n".to_string()], "the program must read its own X, not the leaked parameter binding");
}
