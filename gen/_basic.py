"""Tiny BASIC-text -> Rust token-constructor translator for writing scenarios.
  #name   -> tnum(name)      (a Rust f64 variable, usually symbolic)
  @name   -> Token::NumericLiteral(name as f64) for a Rust u64 line-number variable
  "text"  -> tstr("text")
  DATA 1,2  -> tdata_nums(&[1.0, 2.0])   (numeric items only)
  REM...  -> remark
"""
import re
import os
KN_JUMPS = os.environ.get("KN_JUMPS", "0") == "1"

KEYWORDS = {
    "DIM": "Token::Dim", "LET": "Token::Let", "PRINT": "Token::Print", "INPUT": "Token::Input",
    "GOTO": "Token::Goto", "GOSUB": "Token::Gosub", "RETURN": "Token::Return", "IF": "Token::If",
    "THEN": "Token::Then", "ELSE": "Token::Else", "AND": "Token::And", "OR": "Token::Or", "NOT": "Token::Not",
    "END": "Token::End", "STOP": "Token::Stop", "FOR": "Token::For", "TO": "Token::To", "STEP": "Token::Step",
    "NEXT": "Token::Next", "READ": "Token::Read", "RESTORE": "Token::Restore", "DEF": "Token::Def",
}
PUNCT = {
    ":": "Token::Colon", ";": "Token::Semicolon", ",": "Token::Comma", "?": "Token::QuestionMark",
    "(": "Token::LeftParen", ")": "Token::RightParen", "+": "Token::Plus", "-": "Token::Minus",
    "*": "Token::Multiply", "/": "Token::Divide", "^": "Token::Caret", "=": "Token::Equals",
    "<>": "Token::NotEquals", "<=": "Token::LessThanOrEqualTo", ">=": "Token::GreaterThanOrEqualTo",
    "<": "Token::LessThan", ">": "Token::GreaterThan",
}
TOK_RE = re.compile(r'''\s*(?:(?P<data>DATA\s+[^:]*)|(?P<sym>#[A-Za-z_][A-Za-z_0-9]*)|(?P<lin>@[A-Za-z_][A-Za-z_0-9]*)|(?P<str>"[^"]*")|(?P<num>\d+(?:\.\d+)?)|(?P<word>[A-Za-z][A-Za-z0-9]*\$?)|(?P<p><>|<=|>=|[:;,?()+\-*/^=<>]))''')


def toks(text):
    out = []
    pos = 0
    text = text.strip()
    while pos < len(text):
        m = TOK_RE.match(text, pos)
        if not m:
            raise ValueError("cannot tokenize %r at %d" % (text, pos))
        pos = m.end()
        if m.group("data"):
            items = m.group("data")[4:].strip()
            vals = []
            for it in items.split(","):
                it = it.strip()
                if it.startswith("#"):
                    vals.append(it[1:])
                else:
                    vals.append(repr(float(it)))
            out.append("tdata_nums(&[%s])" % ", ".join(vals))
        elif m.group("sym"):
            out.append("tnum(%s)" % m.group("sym")[1:])
        elif m.group("lin"):
            out.append("tnum(%s as f64)" % m.group("lin")[1:])
        elif m.group("str"):
            out.append("tstr(%s)" % m.group("str"))
        elif m.group("num"):
            if KN_JUMPS and out and out[-1] in ("Token::Goto", "Token::Gosub", "Token::Then", "Token::Else"):
                # jump target: must not be a compile-time constant (see verif_support::kn)
                out.append("tnum(kn(%s))" % repr(float(m.group("num"))))
            else:
                out.append("tnum(%s)" % repr(float(m.group("num"))))
        elif m.group("word"):
            w = m.group("word").upper()
            if w in KEYWORDS:
                out.append(KEYWORDS[w])
            else:
                out.append('tsym("%s")' % w)
        else:
            out.append(PUNCT[m.group("p")])
    return out


def vec(text):
    return "vec![%s]" % ", ".join(toks(text))


def index_of(text, needle_tokens_prefix):
    """token index at which the statement starting with the given text begins"""
    return len(toks(needle_tokens_prefix))


if __name__ == "__main__":
    print(vec('FOR I = #a TO 10 STEP 2 : PRINT "HI"; X$ : DATA 1, 2 : NEXT I'))
