"""Expression trees, their token renderings and reference-fold renderings (shared by C02/C06)."""
import itertools
import random

# (name, token, OP_ const, precedence tier)
BINOPS = [
    ("+", "Token::Plus", "OP_ADD", 4), ("-", "Token::Minus", "OP_SUB", 4),
    ("*", "Token::Multiply", "OP_MUL", 5), ("/", "Token::Divide", "OP_DIV", 5),
    ("^", "Token::Caret", "OP_POW", 6),
    ("=", "Token::Equals", "OP_EQ", 3), ("<>", "Token::NotEquals", "OP_NE", 3),
    ("<", "Token::LessThan", "OP_LT", 3), ("<=", "Token::LessThanOrEqualTo", "OP_LE", 3),
    (">", "Token::GreaterThan", "OP_GT", 3), (">=", "Token::GreaterThanOrEqualTo", "OP_GE", 3),
    ("AND", "Token::And", "OP_AND", 2), ("OR", "Token::Or", "OP_OR", 1),
]
BIN = {b[0]: b for b in BINOPS}
UNOPS = [("+", "Token::Plus", "UN_PLUS"), ("-", "Token::Minus", "UN_MINUS"), ("NOT", "Token::Not", "UN_NOT")]
UN = {u[0]: u for u in UNOPS}
FNS = [("ABS", "FN_ABS"), ("INT", "FN_INT")]
TIER_REPS = ["OR", "AND", "<", "-", "*", "^"]


class Leaf:
    """kind: 'n' numeric literal, 'v' numeric variable, 's' string literal, 'w' string variable"""
    def __init__(self, kind):
        self.kind = kind
        self.idx = None
    prec = 9


class Bin:
    def __init__(self, op, l, r):
        self.op, self.l, self.r = op, l, r
    @property
    def prec(self):
        return BIN[self.op][3]


class Un:
    def __init__(self, op, e):
        self.op, self.e = op, e
    prec = 7


class Fn:
    def __init__(self, f, e):
        self.f, self.e = f, e
    prec = 9


class Paren:
    """explicit redundant parentheses"""
    def __init__(self, e):
        self.e = e
    prec = 9


def leaves(t, out=None):
    out = [] if out is None else out
    if isinstance(t, Leaf):
        out.append(t)
    elif isinstance(t, Bin):
        leaves(t.l, out); leaves(t.r, out)
    else:
        leaves(t.e, out)
    return out


def number_leaves(t):
    for i, l in enumerate(leaves(t)):
        l.idx = i


NUMVARS = ["X", "Y", "Z", "W"]
STRVARS = ["S$", "T$", "U$", "V$"]


def leaf_tok(l):
    if l.kind == "n":
        return "tnum(x%d)" % l.idx
    if l.kind == "v":
        return 'tsym("%s")' % NUMVARS[l.idx % 4]
    if l.kind == "s":
        return "tstr(s%d)" % l.idx
    if l.kind == "c":
        return 'tstr("A")'
    return 'tsym("%s")' % STRVARS[l.idx % 4]


def leaf_text(l):
    if l.kind == "c":
        return '"A"'
    return {"n": "n%d", "v": "V%d", "s": '"s%d"', "w": "S%d$"}[l.kind] % l.idx


def tokens(t, full=False):
    """token list (Rust exprs) with minimal parentheses, or fully parenthesised when full"""
    def wrap(x):
        return ["Token::LeftParen"] + x + ["Token::RightParen"]
    if isinstance(t, Leaf):
        return [leaf_tok(t)]
    if isinstance(t, Paren):
        return wrap(tokens(t.e, full))
    if isinstance(t, Fn):
        return ['tsym("%s")' % t.f] + wrap(tokens(t.e, full))
    if isinstance(t, Un):
        inner = tokens(t.e, full)
        if full or isinstance(t.e, (Bin, Un)):
            if not (full and isinstance(t.e, (Leaf, Fn, Paren))):
                inner = wrap(inner)
        return [UN[t.op][1]] + inner
    l, r = tokens(t.l, full), tokens(t.r, full)
    if full:
        if not isinstance(t.l, (Leaf, Fn, Paren)):
            l = wrap(l)
        if not isinstance(t.r, (Leaf, Fn, Paren)):
            r = wrap(r)
    else:
        if t.l.prec < t.prec:
            l = wrap(l)
        if t.r.prec <= t.prec:
            r = wrap(r)
    return l + [BIN[t.op][1]] + r


def text(t, full=False):
    def wrap(x):
        return "(" + x + ")"
    if isinstance(t, Leaf):
        return leaf_text(t)
    if isinstance(t, Paren):
        return wrap(text(t.e, full))
    if isinstance(t, Fn):
        return t.f + wrap(text(t.e, full))
    if isinstance(t, Un):
        inner = text(t.e, full)
        if isinstance(t.e, (Bin, Un)):
            inner = wrap(inner)
        return t.op + " " + inner
    l, r = text(t.l, full), text(t.r, full)
    if full:
        if not isinstance(t.l, (Leaf, Fn, Paren)):
            l = wrap(l)
        if not isinstance(t.r, (Leaf, Fn, Paren)):
            r = wrap(r)
    else:
        if t.l.prec < t.prec:
            l = wrap(l)
        if t.r.prec <= t.prec:
            r = wrap(r)
    return "%s %s %s" % (l, t.op, r)


def ref(t):
    """Rust expression computing the reference fold"""
    if isinstance(t, Leaf):
        if t.kind == "c":
            return 'r_s("A")'
        return ("r_n(x%d)" if t.kind in "nv" else "r_s(s%d)") % t.idx
    if isinstance(t, Paren):
        return ref(t.e)
    if isinstance(t, Fn):
        return "r_fn(%s, %s)" % (dict(FNS)[t.f], ref(t.e))
    if isinstance(t, Un):
        return "r_un(%s, %s)" % (UN[t.op][2], ref(t.e))
    return "r_bin(%s, %s, %s)" % (BIN[t.op][2], ref(t.l), ref(t.r))


def has_string_unary_plus(t):
    """unary plus applied to something that may be a string: unspecified, never generated"""
    if isinstance(t, Un):
        if t.op == "+" and may_be_string(t.e):
            return True
        return has_string_unary_plus(t.e)
    if isinstance(t, Bin):
        return has_string_unary_plus(t.l) or has_string_unary_plus(t.r)
    if isinstance(t, (Fn, Paren)):
        return has_string_unary_plus(t.e)
    return False


def may_be_string(t):
    if isinstance(t, Leaf):
        return t.kind in "swc"
    if isinstance(t, Paren):
        return may_be_string(t.e)
    if isinstance(t, Un):
        return t.op == "+" and may_be_string(t.e)
    return False


def ntokens(t, full=False):
    return len(tokens(t, full))
