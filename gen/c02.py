"""C02: expression arms (tree shape x operator assignment x leaf kinds) against the reference fold.
Structure is enumerated here; every leaf value is a solver variable inside the harness."""
import os
import random
import sys

sys.path.insert(0, os.path.dirname(os.path.abspath(__file__)))
from _expr import *  # noqa

PROPS = ["C02"]
MODE = os.environ.get("C02_MODE", "sel")
BATCH = int(os.environ.get("C02_BATCH", "1"))
NEEDS = ["verif_support"]

HEADER = """use super::*;
use crate::verif_support::*;

fn set_num(interp: &mut Interpreter, name: &str, x: f64) {
    let r = interp.variables.set(sym(name), Value::Number(x));
    kani::assume(r.is_ok());
    core::mem::forget(r);
}

fn set_str(interp: &mut Interpreter, name: &str, s: &'static str) {
    let r = interp.variables.set(sym(name), Value::String(std::rc::Rc::new(String::from(s))));
    kani::assume(r.is_ok());
    core::mem::forget(r);
}
"""

STUBS = """#[kani::stub(std::backtrace::Backtrace::capture, crate::verif_support::stub_backtrace_capture)]
#[kani::stub(crate::string_manager::StringManager::gc, crate::verif_support::stub_gc)]
#[kani::stub(f64::powf, crate::verif_support::stub_powf)]
#[kani::stub(alloc::fmt::format, crate::verif_support::stub_format)]
#[kani::stub(<crate::symbol::Symbol as std::fmt::Display>::fmt, crate::verif_support::stub_symbol_display)]
"""


def arm_code(k, tree, full, label):
    number_leaves(tree)
    ls = leaves(tree)
    lines = ["    {"]
    for l in ls:
        if l.kind in "nv":
            lines.append("        let x%d = pick_num(kani::any());" % l.idx)
        elif l.kind == "c":
            pass
        else:
            lines.append("        let s%d = pick_str(kani::any());" % l.idx)
    for l in ls:
        if l.kind == "v":
            lines.append('        set_num(&mut interp, "%s", x%d);' % (NUMVARS[l.idx % 4], l.idx))
        elif l.kind == "w":
            lines.append('        set_str(&mut interp, "%s", s%d);' % (STRVARS[l.idx % 4], l.idx))
    toks = tokens(tree, full)
    lines.append("        interp.program.set_and_goto_immediate_line(vec![%s]);" % ", ".join(toks))
    lines.append("        let res = interp.evaluate_expression();")
    lines.append("        let expect = %s;" % ref(tree))
    msg = "c02 arm %s [%s]" % (label, text(tree, full).replace('"', "'"))
    lines.append('        assert!(value_matches(&res, expect), "%s: value/error differs from the reference fold");' % msg)
    lines.append('        assert!(res.is_err() || !interp.program.has_next_token(), "%s: expression not consumed entirely");' % msg)
    lines.append("        core::mem::forget(res);")
    lines.append("    }")
    return "\n".join(lines), len(toks)


def kinds_for(n, mode, k):
    """leaf kinds: numeric leaves alternate literal / variable"""
    if mode == "num":
        return ["n" if (i + k) % 2 == 0 else "v" for i in range(n)]
    return mode


def single_arms():
    arms = []
    k = 0
    for op in [b[0] for b in BINOPS]:
        for kinds in (("n", "v"), ("s", "w"), ("n", "s"), ("w", "v")):
            if kinds == ("w", "v") and op in ("+", "-", "*", "/", "^"):
                continue
            arms.append((Bin(op, Leaf(kinds[0]), Leaf(kinds[1])), False, "single %s %s%s" % (op, kinds[0], kinds[1])))
            k += 1
    return arms


def pair_arms(ops1, ops2):
    arms = []
    k = 0
    for o1 in ops1:
        for o2 in ops2:
            for shape in ("L", "R"):
                ks = kinds_for(3, "num", k)
                a, b, c = Leaf(ks[0]), Leaf(ks[1]), Leaf(ks[2])
                tree = Bin(o2, Bin(o1, a, b), c) if shape == "L" else Bin(o1, a, Bin(o2, b, c))
                arms.append((tree, False, "pair %s,%s %s min" % (o1, o2, shape)))
                k += 1
    return arms


def pair_arms_full(ops1, ops2):
    arms = []
    k = 0
    for o1 in ops1:
        for o2 in ops2:
            for shape in ("L", "R"):
                ks = kinds_for(3, "num", k + 1)
                a, b, c = Leaf(ks[0]), Leaf(ks[1]), Leaf(ks[2])
                tree = Bin(o2, Bin(o1, a, b), c) if shape == "L" else Bin(o1, a, Bin(o2, b, c))
                arms.append((tree, True, "pair %s,%s %s full" % (o1, o2, shape)))
                k += 1
    return arms


def unary_arms():
    arms = []
    for u in ("+", "-", "NOT"):
        arms.append((Un(u, Leaf("n")), False, "unary %s leaf" % u))
        arms.append((Un(u, Leaf("v")), False, "unary %s var" % u))
        if u != "+":
            arms.append((Un(u, Leaf("s")), False, "unary %s str" % u))
        for op in TIER_REPS:
            # unary on the left operand, on the right operand, on the whole subtree
            arms.append((Bin(op, Un(u, Leaf("n")), Leaf("v")), False, "unary %s left of %s" % (u, op)))
            arms.append((Bin(op, Leaf("v"), Un(u, Leaf("n"))), False, "unary %s right of %s" % (u, op)))
            arms.append((Un(u, Bin(op, Leaf("n"), Leaf("v"))), False, "unary %s over %s" % (u, op)))
    # NOT over / beside comparisons with string operands (truthiness of strings)
    arms.append((Un("NOT", Bin("=", Leaf("s"), Leaf("w"))), False, "NOT over string ="))
    arms.append((Bin("AND", Un("NOT", Leaf("s")), Leaf("w")), False, "NOT str AND str"))
    arms.append((Bin("=", Un("NOT", Leaf("n")), Leaf("v")), False, "NOT n = v"))
    for f in ("ABS", "INT"):
        arms.append((Fn(f, Leaf("n")), False, "%s leaf" % f))
        arms.append((Fn(f, Bin("-", Leaf("n"), Leaf("v"))), False, "%s over -" % f))
        arms.append((Bin("*", Fn(f, Leaf("v")), Leaf("n")), False, "%s times" % f))
        arms.append((Un("-", Fn(f, Un("-", Leaf("n")))), False, "- %s -" % f))
        arms.append((Bin("^", Leaf("n"), Fn(f, Bin("/", Leaf("v"), Leaf("n")))), False, "^ %s /" % f))
    # redundant parentheses around atoms and subtrees
    arms.append((Paren(Paren(Leaf("n"))), False, "parens leaf"))
    arms.append((Bin("+", Paren(Leaf("v")), Paren(Bin("*", Leaf("n"), Paren(Leaf("v"))))), False, "parens nested"))
    arms.append((Bin("=", Paren(Leaf("s")), Paren(Paren(Leaf("w")))), False, "parens strings"))
    return arms


def typed_pair_arms(rng, count):
    arms = []
    allops = [b[0] for b in BINOPS]
    for _ in range(count):
        o1, o2 = rng.choice(allops), rng.choice(allops)
        ks = [rng.choice("nvsw") for _ in range(3)]
        a, b, c = Leaf(ks[0]), Leaf(ks[1]), Leaf(ks[2])
        shape = rng.choice("LR")
        tree = Bin(o2, Bin(o1, a, b), c) if shape == "L" else Bin(o1, a, Bin(o2, b, c))
        arms.append((tree, rng.random() < 0.3, "typed pair %s,%s %s %s" % (o1, o2, shape, "".join(ks))))
    return arms


def triple_arms(rng, count):
    arms = []
    allops = [b[0] for b in BINOPS]
    for _ in range(count):
        o = [rng.choice(allops) for _ in range(3)]
        ks = kinds_for(4, "num", rng.randrange(2))
        a, b, c, d = [Leaf(x) for x in ks]
        shape = rng.randrange(5)
        if shape == 0:
            tree = Bin(o[2], Bin(o[1], Bin(o[0], a, b), c), d)
        elif shape == 1:
            tree = Bin(o[2], Bin(o[0], a, Bin(o[1], b, c)), d)
        elif shape == 2:
            tree = Bin(o[1], Bin(o[0], a, b), Bin(o[2], c, d))
        elif shape == 3:
            tree = Bin(o[0], a, Bin(o[2], Bin(o[1], b, c), d))
        else:
            tree = Bin(o[0], a, Bin(o[1], b, Bin(o[2], c, d)))
        if rng.random() < 0.3:
            u = rng.choice(["-", "NOT"])
            tree = Bin(tree.op, Un(u, tree.l), tree.r) if rng.random() < 0.5 else Bin(tree.op, tree.l, Un(u, tree.r))
        arms.append((tree, rng.random() < 0.25, "triple %s shape%d" % (",".join(o), shape)))
    return arms


def batches(arms, size):
    size = BATCH or size
    return [arms[i:i + size] for i in range(0, len(arms), size)]


def emit(name, tier, arms, clause, timeout):
    body = []
    maxtok = 0
    samples = []
    for k, (tree, full, label) in enumerate(arms):
        code, nt = arm_code(k, tree, full, label)
        maxtok = max(maxtok, nt)
        body.append("    // arm %d: %s\n%s" % (k, label, code))
        if k < 3:
            samples.append(text(tree, full).replace('"', "'"))
    unwind = max(12, maxtok + 4)
    out = []
    ndiv = max(text(t, f).count("/") for (t, f, _l) in arms)
    mem = 3500 if ndiv < 1 else 12000
    cost = (30 if ndiv == 0 else 90 if ndiv == 1 else 600) * len(arms)
    if ndiv >= 2 or (ndiv >= 1 and name.startswith("c02_unary_fn")):
        timeout = max(timeout, 1500)
        tier = "thorough"
    out.append('// @verif prop=C02 tier=%s timeout=%d arms=%d mem=%d cost=%d clause="%s"' % (tier, timeout, len(arms), mem, cost, clause))
    out.append('// @verif sample="%s ... (numeric leaves: any of {0,1,2,3,-1,0.5,NaN,inf,-0}; string leaves: any of {\'\',A,B,AB}; half of the leaves read through variables)" bounds="%d arms, <=%d tokens each; leaf values by symbolic selector"'
               % (" | ".join(samples), len(arms), maxtok))
    out.append("#[kani::proof]")
    out.append("#[kani::unwind(%d)]" % unwind)
    out.append(STUBS.rstrip())
    out.append("fn %s() {" % name)
    out.append("    let mut interp = Interpreter::default();")
    if MODE == "seq":
        out += body
        out.append('    kani::cover!(true, "reached_end");')
    else:
        out.append("    let arm: u16 = kani::any();")
        out.append("    match arm {")
        for k, b in enumerate(body):
            pat = str(k) if k < len(body) - 1 else "_"
            out.append("    %s => {\n%s\n    kani::cover!(true, \"arm_%d\");\n    }" % (pat, b, k))
        out.append("    }")
    out.append("    core::mem::forget(interp);")
    out.append("}\n")
    return "\n".join(out)


def parenfree_pair_arms(ops1, ops2):
    """`a o1 b o2 c` without parentheses: the tree it must parse to is determined by the spec's
    precedence table (o2 binds tighter -> right-nested, else left-nested)."""
    arms = []
    k = 0
    for o1 in ops1:
        for o2 in ops2:
            ks = kinds_for(3, "num", k)
            a, b, c = Leaf(ks[0]), Leaf(ks[1]), Leaf(ks[2])
            if BIN[o2][3] > BIN[o1][3]:
                tree = Bin(o1, a, Bin(o2, b, c))
            else:
                tree = Bin(o2, Bin(o1, a, b), c)
            number_leaves(tree)
            assert "(" not in text(tree)
            arms.append((tree, False, "pair %s,%s paren-free" % (o1, o2)))
            k += 1
    return arms


def other_grouping_pair_arms(ops1, ops2):
    arms = []
    k = 1
    for o1 in ops1:
        for o2 in ops2:
            ks = kinds_for(3, "num", k)
            a, b, c = Leaf(ks[0]), Leaf(ks[1]), Leaf(ks[2])
            if BIN[o2][3] > BIN[o1][3]:
                tree = Bin(o2, Bin(o1, a, b), c)
            else:
                tree = Bin(o1, a, Bin(o2, b, c))
            number_leaves(tree)
            assert "(" in text(tree)
            arms.append((tree, False, "pair %s,%s parenthesised" % (o1, o2)))
            k += 1
    return arms


def generate(prop, tier, seed):
    rng = random.Random(1000 + seed)
    allops = [b[0] for b in BINOPS]
    groups = []  # (tier, name, arms, clause)
    singles = single_arms()
    for i, b in enumerate(batches(singles, 13)):
        groups.append(("quick", "c02_singles_%d" % i, b, "every binary operator x operand kinds {num,num},{str,str},{num,str},{str,num}: value / TYPE MISMATCH / DIVISION BY ZERO"))
    una = unary_arms()
    for i, b in enumerate(batches(una, 13)):
        groups.append(("quick" if i % 3 == 0 else "thorough", "c02_unary_fn_%d" % i, b, "unary +,-,NOT bind tightest; ABS/INT; redundant parentheses"))
    reps = parenfree_pair_arms(TIER_REPS, TIER_REPS)
    for i, b in enumerate(batches(reps, 12)):
        groups.append(("quick", "c02_tier_pairs_%d" % i, b, "a o1 b o2 c without parentheses, one operator per precedence tier (36 ordered tier pairs): precedence and left associativity"))
    rest = [(o1, o2) for o1 in allops for o2 in allops if not (o1 in TIER_REPS and o2 in TIER_REPS)]
    rng.shuffle(rest)
    extra = []
    nodiv = [x for x in rest if "/" not in x]
    rest = nodiv[:4] + [x for x in rest if x not in nodiv[:4]]
    for (o1, o2) in rest[:4]:
        extra += parenfree_pair_arms([o1], [o2]) + other_grouping_pair_arms([o1], [o2])
    # division keeps its place in quick through its tier mate and three targeted arms
    extra += parenfree_pair_arms(["*"], ["/"]) + parenfree_pair_arms(["-"], ["/"])
    for i, b in enumerate(batches(extra, 3)):
        groups.append(("quick", "c02_seeded_pairs_%d" % i, b, "seeded sample of the remaining operator pairs, both groupings (VERIF_SEED=%d)" % seed))
    if tier == "thorough":
        og = other_grouping_pair_arms(TIER_REPS, TIER_REPS)
        for i, b in enumerate(batches(og, 12)):
            groups.append(("thorough", "c02_tier_pairs_paren_%d" % i, b, "tier pairs in the other grouping (explicit parentheses)"))
        allpairs = []
        for (o1, o2) in rest[4:]:
            allpairs += parenfree_pair_arms([o1], [o2]) + other_grouping_pair_arms([o1], [o2])
        for i, b in enumerate(batches(allpairs, 14)):
            groups.append(("thorough", "c02_all_pairs_%d" % i, b, "all 169 operator pairs x both groupings, minimal parentheses"))
        fulls = pair_arms_full(allops, allops)
        rng.shuffle(fulls)
        for i, b in enumerate(batches(fulls[:72], 12)):
            groups.append(("thorough", "c02_full_parens_%d" % i, b, "operator pairs, fully parenthesised rendering: redundant parentheses never change a result"))
        typed = typed_pair_arms(rng, 48)
        for i, b in enumerate(batches(typed, 12)):
            groups.append(("thorough", "c02_typed_pairs_%d" % i, b, "operator pairs with string/number leaf mixes: error kind and error order"))
        tri = triple_arms(rng, 60)
        for i, b in enumerate(batches(tri, 10)):
            groups.append(("thorough", "c02_triples_%d" % i, b, "seeded triples over 5 tree shapes (VERIF_SEED=%d)" % seed))
    text_out = HEADER
    for (t, name, arms, clause) in groups:
        if tier == "quick" and t != "quick":
            continue
        text_out += "\n" + emit(name, t, arms, clause, 600 if t == "quick" else 900)
    return [("verif_c02_gen", "abasic-core", "src/interpreter.rs", text_out)]


if __name__ == "__main__":
    for m in generate("C02", sys.argv[1] if len(sys.argv) > 1 else "quick", 0):
        print(m[3])
