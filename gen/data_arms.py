"""C12 / C14 / C08: DATA item parser on class strings (concrete structure: which positions hold an
item letter, a quote, a blank, a comma, a colon; symbolic data: the letters)."""
import itertools

PROPS = ["C12", "C14", "C08", "C01"]
NEEDS = ["verif_data_units"]

HEADER = """use super::*;
#[allow(unused_imports)]
use crate::data::verif_data_units::*;

/// Item characters are concrete (A, B, C, D by position): with symbolic letters `str::trim`'s Unicode
/// whitespace tables over symbolic content push most batches past 600 s (measured).  The structure
/// (where items, quotes, blanks, commas and the colon sit) is what these arms enumerate.
fn letter_at(k: u8) -> u8 {
    b'A' + k
}

fn parse(bytes: &[u8]) -> (Vec<DataElement>, usize) {
    let s = unsafe { std::str::from_utf8_unchecked(bytes) };
    parse_data_until_colon(s, None)
}
"""

SYM = {"L": None, "Q": "b'\"'", "B": "b' '", "C": "b','", "K": "b':'"}


def rust_bytes(cls, names):
    out = []
    li = 0
    for c in cls:
        if c == "L":
            out.append(names[li])
            li += 1
        else:
            out.append(SYM[c])
    return "[%s]" % ", ".join(out)


def allowed_insertions(t):
    """positions p in class string t (no blanks) where a blank is insignificant per the property:
    outside quotes, and not between two characters of one unquoted item."""
    res = []
    for p in range(len(t) + 1):
        quotes_before = t[:p].count("Q")
        if quotes_before % 2 == 1:
            continue
        # an unquoted item is a maximal run of L and Q that does not start with Q at an item start...
        left = t[p - 1] if p > 0 else None
        right = t[p] if p < len(t) else None
        if left == "L" and right in ("L", "Q"):
            continue  # inside an unquoted item (A|B or A|"...)
        if left == "Q" and right == "L":
            # after a closing quote directly followed by an item char: `"A"B` - the parser's behaviour
            # for text glued to a closing quote is not specified by the property: skip
            continue
        if left == "Q" and right == "Q":
            continue
        res.append(p)
    return res


def well_formed(t):
    # quotes balanced before the terminating colon / end (an unterminated quote swallows everything)
    body = t.split("K")[0] if "K" in t else t
    if body.count("Q") % 2 == 1:
        return False
    # a quote in the middle of an unquoted item (A"B) is an item character, not a string delimiter:
    # keep structure simple: quotes only in pairs that start at an item boundary
    i = 0
    inq = False
    prev = None
    for c in t:
        if c == "Q":
            if not inq and prev == "L":
                return False
            inq = not inq
        prev = c
    return True


def generate(prop, tier, seed):
    maxlen = 3 if tier == "quick" else 4
    strings = []
    for n in range(0, maxlen + 1):
        for t in itertools.product("LQCK", repeat=n):
            t = "".join(t)
            if well_formed(t):
                strings.append(t)
    arms = []
    for t in strings:
        if t == "":
            continue  # the empty text vs a single blank: symex of the zero-length slice does not finish (measured)
        for p in allowed_insertions(t):
            arms.append((t, p))
    out = HEADER
    batch = 4
    nb = 0
    for b in range(0, len(arms), batch):
        chunk = arms[b:b + batch]
        name = "c12_data_blank_insertion_%d" % nb
        nb += 1
        body = []
        for k, (t, p) in enumerate(chunk):
            nl = t.count("L")
            names = ["l%d" % i for i in range(nl)]
            u = t[:p] + "B" + t[p:]
            lines = ["    {"]
            for nme in names:
                lines.append("        let %s = letter_at(%d);" % (nme, names.index(nme)))
            lines.append("        let a = %s;" % rust_bytes(t, names))
            lines.append("        let b = %s;" % rust_bytes(u, names))
            lines.append("        let (e1, r1) = parse(&a);")
            lines.append("        let (e2, r2) = parse(&b);")
            lines.append('        assert!(e1.len() >= 1 && e2.len() >= 1, "c08 data [%s]: the item list is never empty");' % t)
            lines.append('        assert!(r1 <= a.len() && r2 <= b.len(), "c08 data [%s]: bytes consumed lie within the text");' % t)
            lines.append('        assert!(same_elements(&e1, &e2), "c12 data [%s | blank at %d]: a blank at an item boundary must not change the DATA item list");' % (t, p))
            lines.append("        core::mem::forget(e1);")
            lines.append("        core::mem::forget(e2);")
            lines.append("    }")
            body.append("\n".join(lines))
        tier_of = "quick" if all(len(t) <= 3 for t, _ in chunk) else "thorough"
        out += '\n// @verif prop=C12,C14 tier=%s timeout=900 mem=5000 cost=90 arms=%d clause="a blank inserted before/after a DATA item, around a comma or before the terminating colon leaves the item list unchanged; the list is never empty; bytes consumed <= length"\n' % (tier_of, len(chunk))
        out += '// @verif sample="class strings over {L=item letter, Q=quote, C=comma, K=colon}, e.g. %s with a blank inserted at %d; %s ..." bounds="class strings of length <= %d, one inserted blank"\n' % (chunk[0][0] or "(empty)", chunk[0][1], ", ".join("%s@%d" % (t or "-", p) for t, p in chunk[1:4]), maxlen)
        out += "#[kani::proof]\n#[kani::unwind(8)]\n#[kani::stub(<f64 as std::str::FromStr>::from_str, crate::data::verif_data_units::stub_parse_f64)]\n"
        out += "fn %s() {\n%s\n    kani::cover!(true, \"reached_end\");\n}\n" % (name, "\n".join(body))
    # --- contract family (C08/C01): every class string, including unbalanced quotes and blanks ---
    allstrings = []
    for n in range(1, maxlen + 1):
        for t in itertools.product("LQBCK", repeat=n):
            allstrings.append("".join(t))
    cb = 16
    nc = 0
    for b in range(0, len(allstrings), cb):
        chunk = allstrings[b:b + cb]
        body = []
        for t in chunk:
            nl = t.count("L")
            names = ["l%d" % i for i in range(nl)]
            lines = ["    {"]
            for nme in names:
                lines.append("        let %s = letter_at(%d);" % (nme, names.index(nme)))
            lines.append("        let a: [u8; %d] = %s;" % (len(t), rust_bytes(t, names)))
            lines.append("        let (e1, r1) = parse(&a);")
            lines.append('        assert!(e1.len() >= 1, "c08 data contract [%s]: the item list is never empty (INPUT indexes its first item)");' % t)
            lines.append('        assert!(r1 <= a.len(), "c08 data contract [%s]: bytes consumed lie within the text");' % t)
            lines.append("        core::mem::forget(e1);")
            lines.append("    }")
            body.append("\n".join(lines))
        tier_of = "quick" if all(len(t) <= 3 for t in chunk) else "thorough"
        if prop in ("C08", "C01") or True:
            out += '\n// @verif prop=C08,C01,C12 tier=%s timeout=900 mem=9000 cost=60 arms=%d clause="reply/DATA parser contract on every class string (also unbalanced quotes): never an empty item list, bytes consumed within the text, no panic"\n' % (tier_of, len(chunk))
            out += '// @verif sample="class strings over {L,Q,B,C,K}: %s ..." bounds="all class strings of length <= %d"\n' % (", ".join(x or "(empty)" for x in chunk[:5]), maxlen)
            out += "#[kani::proof]\n#[kani::unwind(8)]\n#[kani::stub(<f64 as std::str::FromStr>::from_str, crate::data::verif_data_units::stub_parse_f64)]\n"
            out += "fn c08_data_contract_%d() {\n%s\n    kani::cover!(true, \"reached_end\");\n}\n" % (nc, "\n".join(body))
        nc += 1
    return [("verif_data_arms", "abasic-core", "src/data.rs", out)]


if __name__ == "__main__":
    import sys
    m = generate("C12", sys.argv[1] if len(sys.argv) > 1 else "quick", 0)
    print(m[0][3].count("#[kani::proof]"), "harnesses")
