"""Session-level scenarios (token-level programs through the real interpreter turn API).
Each scenario is one Kani harness: concrete program structure, symbolic data.
Serves C01 (K-step), C03, C07, C08, C09, C10, C11, C16, C17."""
import os
import sys

sys.path.insert(0, os.path.dirname(os.path.abspath(__file__)))
from _basic import vec, toks  # noqa

PROPS = ["C01", "C03", "C07", "C08", "C09", "C10", "C11", "C16", "C17", "C18"]
NEEDS = ["verif_support", "verif_paccess", "verif_isupport"]

HEADER = """use super::*;
#[allow(unused_imports)]
use crate::interpreter::verif_isupport::*;
"""

STUBS = """#[kani::stub(std::backtrace::Backtrace::capture, crate::verif_support::stub_backtrace_capture)]
#[kani::stub(crate::string_manager::StringManager::gc, crate::verif_support::stub_gc)]
#[kani::stub(alloc::fmt::format, crate::verif_support::stub_format)]
#[kani::stub(<crate::symbol::Symbol as std::fmt::Display>::fmt, crate::verif_support::stub_symbol_display)]
#[kani::stub(<crate::tokenizer::Token as std::fmt::Display>::fmt, crate::interpreter::verif_isupport::stub_token_display)]
"""
STUB_PARSE = "#[kani::stub(crate::data::parse_data_until_colon, crate::interpreter::verif_isupport::stub_parse_data_until_colon)]\n"

SCENARIOS = []


def L(n, text, who="i"):
    return "line(&mut %s, %s, %s);" % (who, n, vec(text))


def IMM(text, who="i"):
    return "immediate(&mut %s, %s)" % (who, vec(text))


def idx(prefix):
    """token index just after the given statement prefix"""
    return len(toks(prefix))


def S(name, props, tier, clause, sample, body, unwind=12, timeout=900, mem=5000, cost=60, parse_stub=False, bounds=""):
    SCENARIOS.append(dict(name=name, props=props, tier=tier, clause=clause, sample=sample, body=body,
                          unwind=unwind, timeout=timeout, mem=mem, cost=cost, parse_stub=parse_stub, bounds=bounds))


# ------------------------------------------------------------------------------------------------
# C03: reference step semantics
# ------------------------------------------------------------------------------------------------
S("c03_for_next_step", ["C03"], "quick",
  "FOR body runs at least once; loop variable = from; NEXT stores v+step and continues iff (step>=0 ? v+step<=to : v+step>=to)",
  "10 FOR I = a TO b STEP c / 20 X = X + 1 / 30 NEXT I, a,b,c any non-NaN f64",
  f"""
    let a: f64 = kani::any(); let b: f64 = kani::any(); let c: f64 = kani::any();
    kani::assume(!a.is_nan() && !b.is_nan() && !c.is_nan());
    let mut i = Interpreter::default();
    {L(10, "FOR I = #a TO #b STEP #c")}
    {L(20, "X = X + 1")}
    {L(30, "NEXT I")}
    assert!(run_tok(&mut i).is_none(), "c03 for: FOR statement must not fail");
    assert!(st(&i) == ST_RUNNING && pa::at(&i.program, 20, 0), "c03 for: body entered whatever from/to are");
    assert!(num(&i, "I") == a, "c03 for: loop variable starts at the from value");
    assert!(pa::loop_len(&i.program) == 1, "c03 for: one open loop");
    assert!(turn(&mut i).is_none(), "c03 for: body statement");
    assert!(num(&i, "X") == 1.0, "c03 for: body ran once");
    assert!(stmt(&mut i).is_none(), "c03 for: NEXT must not fail");
    let v = a + c;
    let cont = if c >= 0.0 {{ v <= b }} else {{ v >= b }};
    assert!(same_f64(num(&i, "I"), v), "c03 for: NEXT stores value + step, continuing or not");
    if cont {{
        assert!(pa::at(&i.program, 10, {idx("FOR I = #a TO #b STEP #c")}), "c03 for: loop continues right after the FOR statement");
        assert!(pa::loop_len(&i.program) == 1, "c03 for: loop stays open");
        kani::cover!(c < 0.0, "reached_negative_step_continue");
    }} else {{
        assert!(pa::at(&i.program, 30, {idx("NEXT I")}), "c03 for: loop exits to the statement after NEXT");
        assert!(pa::loop_len(&i.program) == 0, "c03 for: finished loop is closed");
        kani::cover!(true, "reached_exit");
    }}
""")
S("c03_for_limit_fixed_at_entry", ["C03"], "quick",
  "limit and step are captured at FOR entry: reassigning the variables they came from does not change them",
  "10 B=b : C=c / 20 FOR I = 1 TO B STEP C / 30 B = 0 : C = 0 / 40 NEXT I",
  f"""
    let b: f64 = any_small(); let c: f64 = any_small();
    kani::assume(!b.is_nan() && !c.is_nan());
    let mut i = Interpreter::default();
    set_num(&mut i, "B", b); set_num(&mut i, "C", c);
    {L(20, "FOR I = 1 TO B STEP C")}
    {L(30, "B = 0 : C = 0")}
    {L(40, "NEXT I")}
    i.program.run_from_first_numbered_line();
    i.state = InterpreterState::Running;
    assert!(turn(&mut i).is_none());  // FOR
    assert!(turn(&mut i).is_none());  // B = 0
    assert!(turn(&mut i).is_none());  // :
    assert!(turn(&mut i).is_none());  // C = 0
    assert!(num(&i, "B") == 0.0 && num(&i, "C") == 0.0);
    assert!(pa::loop_len(&i.program) == 1 && pa::loop_to(&i.program, 0) == b && pa::loop_step(&i.program, 0) == c,
        "c03 for: limit and step fixed at entry");
    assert!(stmt(&mut i).is_none());  // NEXT I
    let v = 1.0 + c;
    assert!(same_f64(num(&i, "I"), v), "c03 for: NEXT uses the step captured at entry");
    let cont = if c >= 0.0 {{ v <= b }} else {{ v >= b }};
    assert!((pa::loop_len(&i.program) == 1) == cont, "c03 for: NEXT uses the limit captured at entry");
    kani::cover!(cont, "reached_continue");
""")

S("c03_next_forgets_inner", ["C03", "C16"], "quick",
  "NEXT of an outer loop forgets the inner loops opened after it and resumes after its FOR",
  "loops [I (from line 10), J (from line 20)] open, I = 1; 30 NEXT I",
  f"""
    let mut i = Interpreter::default();
    {L(10, "FOR I = 1 TO 3")}
    {L(20, "FOR J = 1 TO 3")}
    {L(30, "NEXT I")}
    {L(40, "NEXT J")}
    i.program.run_from_first_numbered_line();
    set_num(&mut i, "I", 1.0); set_num(&mut i, "J", 1.0);
    pa::push_loop(&mut i.program, "I", 10, {idx("FOR I = 1 TO 3")}, 3.0, 1.0);
    pa::push_loop(&mut i.program, "J", 20, {idx("FOR J = 1 TO 3")}, 3.0, 1.0);
    resume_at(&mut i, 30, 0);
    assert!(stmt(&mut i).is_none(), "c03: NEXT I with J open must not fail");
    assert!(pa::loop_len(&i.program) == 1 && pa::loop_symbol_is(&i.program, 0, "I"), "c03: NEXT I forgets the J loop");
    assert!(pa::at(&i.program, 10, {idx("FOR I = 1 TO 3")}), "c03: NEXT I resumes after FOR I");
    assert!(num(&i, "I") == 2.0);
    kani::cover!(true, "reached_end");
""")

S("c03_next_without_for_line", ["C03", "C01"], "quick",
  "NEXT J when only I is open is NEXT WITHOUT FOR at the NEXT's line; the I loop is untouched; interpreter idle",
  "loops [I] open; 40 NEXT J",
  f"""
    let mut i = Interpreter::default();
    {L(10, "FOR I = 1 TO 3")}
    {L(40, "NEXT J")}
    i.program.run_from_first_numbered_line();
    set_num(&mut i, "I", 1.0); set_num(&mut i, "J", 1.0);
    pa::push_loop(&mut i.program, "I", 10, {idx("FOR I = 1 TO 3")}, 3.0, 1.0);
    resume_at(&mut i, 40, 0);
    let e = stmt(&mut i);
    assert!(e == Some((E_NEXT, Some(40))), "c03: NEXT J without an open J loop is NEXT WITHOUT FOR IN 40");
    assert!(st(&i) == ST_IDLE, "c01: after an error the interpreter is idle");
    assert!(pa::loop_len(&i.program) == 1, "c16: a failed NEXT does not disturb other loops");
    kani::cover!(true, "reached_end");
""")
S("c03_for_reentry_replaces", ["C03", "C16", "C09"], "quick",
  "re-entering FOR I via GOTO replaces the old I loop (no accumulation); a non-terminating program hands control back every turn",
  "0 FOR I = 1 TO 3 / 10 GOTO 0, 3 rounds",
  f"""
    let mut i = Interpreter::default();
    {L(0, "FOR I = 1 TO 3")}
    {L(10, "GOTO 0")}
    assert!(run_tok(&mut i).is_none());
    let mut k = 0;
    while k < 3 {{
        assert!(st(&i) == ST_RUNNING && pa::at(&i.program, 10, 0), "c09: a non-terminating program keeps handing control back");
        assert!(turn(&mut i).is_none());   // GOTO 0
        assert!(st(&i) == ST_RUNNING && pa::at(&i.program, 0, 0), "c03: GOTO goes to its target");
        assert!(turn(&mut i).is_none());   // FOR I again
        assert!(pa::loop_len(&i.program) == 1, "c16: re-entering a FOR does not accumulate loops");
        assert!(num(&i, "I") == 1.0, "c03: re-entered FOR restarts the variable");
        k += 1;
    }}
    kani::cover!(true, "reached_end");
""")
S("c03_gosub_return", ["C03"], "quick",
  "GOSUB pushes one frame and RETURN resumes right after the GOSUB's line number; END stops",
  "0 Y = 2 / 1 RETURN / 10 GOSUB 0 : X = 1 / 20 END (started at line 10)",
  f"""
    let mut i = Interpreter::default();
    {L(0, "Y = 2")}
    {L(1, "RETURN")}
    {L(10, "GOSUB 0 : X = 1")}
    {L(20, "END")}
    assert!(start_at(&mut i, 10).is_none());   // GOSUB 0
    assert!(pa::at(&i.program, 0, 0) && pa::stack_len(&i.program) == 1, "c03: GOSUB jumps and pushes one frame");
    assert!(turn(&mut i).is_none());  // Y = 2
    assert!(turn(&mut i).is_none());  // RETURN
    assert!(pa::at(&i.program, 10, {idx("GOSUB 0")}) && pa::stack_len(&i.program) == 0, "c03: RETURN resumes after the GOSUB target number");
    assert!(turn(&mut i).is_none());  // :
    assert!(turn(&mut i).is_none());  // X = 1
    assert!(num(&i, "X") == 1.0 && num(&i, "Y") == 2.0);
    assert!(pa::at(&i.program, 20, 0));
    assert!(turn(&mut i).is_none());  // END
    assert!(st(&i) == ST_IDLE, "c03: END stops the program");
    kani::cover!(true, "reached_end");
""")
S("c03_sequencing_extremes", ["C03", "C04", "C01"], "quick",
  "lines run in ascending numeric order whatever the entry order, including lines 0 and 18446744073709551615; falling off the end is Idle",
  "entered: u64::MAX: X=X*10+3 ; 0: X=X*10+1 ; 7: X=X*10+2",
  f"""
    let mut i = Interpreter::default();
    {L("u64::MAX", "X = X * 10 + 3")}
    {L(0, "X = X * 10 + 1")}
    {L(7, "X = X * 10 + 2")}
    assert!(run_tok(&mut i).is_none());
    assert!(num(&i, "X") == 1.0 && pa::at(&i.program, 7, 0), "c04: RUN starts at the least line");
    assert!(turn(&mut i).is_none());
    assert!(num(&i, "X") == 12.0 && pa::at(&i.program, u64::MAX, 0), "c04: successor in numeric order");
    assert!(turn(&mut i).is_none());
    assert!(num(&i, "X") == 123.0, "c04: the last line runs");
    assert!(st(&i) == ST_IDLE, "c03: falling off the end of the program is a normal stop (also at line u64::MAX)");
    kani::cover!(true, "reached_end");
""")

S("c03_read_data_restore", ["C03"], "quick",
  "READ consumes DATA items in line order across chunks; RESTORE rewinds; exhausted -> OUT OF DATA at the READ's line",
  "10 DATA d1,d2 / 20 READ A,B / 30 DATA d3 / 40 READ C / 50 RESTORE / 60 READ D / 70 READ E,F,G (third fails)",
  f"""
    let d1: f64 = kani::any(); let d2: f64 = kani::any(); let d3: f64 = kani::any();
    kani::assume(!d1.is_nan() && !d2.is_nan() && !d3.is_nan());
    let mut i = Interpreter::default();
    {L(10, "DATA #d1, #d2")}
    {L(20, "READ A, B")}
    {L(30, "DATA #d3")}
    {L(40, "READ C")}
    {L(50, "RESTORE")}
    {L(60, "READ D")}
    {L(70, "READ E, F, G")}
    assert!(run_tok(&mut i).is_none());   // DATA (no-op)
    assert!(turn(&mut i).is_none());  // READ A,B
    assert!(num(&i, "A") == d1 && num(&i, "B") == d2, "c03: READ takes items in order");
    assert!(turn(&mut i).is_none());  // DATA
    assert!(turn(&mut i).is_none());  // READ C
    assert!(num(&i, "C") == d3, "c03: READ crosses to the next DATA line");
    assert!(turn(&mut i).is_none());  // RESTORE
    assert!(turn(&mut i).is_none());  // READ D
    assert!(num(&i, "D") == d1, "c03: RESTORE rewinds to the first item");
    let e = turn_err(&mut i);         // READ E,F,G : E=d2 F=d3 G -> out of data
    assert!(e == Some((E_OUT_OF_DATA, Some(70))), "c03: exhausted data is OUT OF DATA IN 70");
    assert!(num(&i, "E") == d2 && num(&i, "F") == d3);
    kani::cover!(true, "reached_end");
""", unwind=14)



S("c03_if_then_else_values", ["C03"], "quick",
  "IF runs the THEN statement iff the condition is non-zero, else the ELSE statement; nothing of the other branch is observed",
  "10 IF c THEN X = 1 ELSE Y = 2 / 20 Z = 3, c any f64",
  f"""
    let c: f64 = kani::any();
    let mut i = Interpreter::default();
    {L(10, "IF #c THEN X = 1 ELSE Y = 2")}
    {L(20, "Z = 3")}
    assert!(run_tok(&mut i).is_none());
    if c != 0.0 {{
        assert!(num(&i, "X") == 1.0 && !has_var(&i, "Y"), "c03: true condition runs only the THEN statement");
    }} else {{
        assert!(num(&i, "Y") == 2.0 && !has_var(&i, "X"), "c03: false condition runs only the ELSE statement");
    }}
    assert!(pa::at(&i.program, 20, 0), "c03: after IF the next line follows");
    assert!(!has_var(&i, "Z"), "c09: one call runs one statement");
    kani::cover!(c.is_nan(), "reached_nan_condition");
""")

S("c03_if_then_line_number", ["C03"], "quick",
  "THEN n jumps to the line when the condition holds, otherwise the ELSE statement runs",
  "0 END / 10 IF c THEN 0 ELSE X = 2, c any f64",
  f"""
    let c: f64 = kani::any();
    let mut i = Interpreter::default();
    {L(0, "END")}
    {L(10, "IF #c THEN 0 ELSE X = 2")}
    i.program.run_from_first_numbered_line();
    resume_at(&mut i, 10, 0);
    assert!(stmt(&mut i).is_none());
    if c != 0.0 {{
        assert!(pa::at(&i.program, 0, 0) && !has_var(&i, "X"), "c03: THEN line jumps, ELSE part not run");
    }} else {{
        assert!(num(&i, "X") == 2.0, "c03: false condition runs the ELSE statement");
    }}
    kani::cover!(c == 0.0, "reached_else_statement");
""")

S("c03_if_else_line_number", ["C03"], "quick",
  "ELSE n jumps to the line when the condition fails, otherwise only the THEN statement runs",
  "0 END / 20 IF c THEN X = 1 ELSE 0, c any f64",
  f"""
    let c: f64 = kani::any();
    let mut i = Interpreter::default();
    {L(0, "END")}
    {L(20, "IF #c THEN X = 1 ELSE 0")}
    i.program.run_from_first_numbered_line();
    resume_at(&mut i, 20, 0);
    assert!(stmt(&mut i).is_none());
    if c != 0.0 {{
        assert!(num(&i, "X") == 1.0 && !pa::at(&i.program, 0, 0), "c03: true condition runs the THEN statement only");
    }} else {{
        assert!(pa::at(&i.program, 0, 0) && !has_var(&i, "X"), "c03: ELSE line jumps");
    }}
    kani::cover!(c == 0.0, "reached_else_jump");
""")
S("c03_if_gosub_else_return", ["C03"], "quick",
  "GOSUB inside a THEN that has an ELSE: after RETURN nothing fails and no effect of the ELSE part is observed",
  "0 RETURN / 10 IF 1 THEN GOSUB 0 ELSE Y = 2; state: inside the subroutine called from line 10",
  f"""
    let mut i = Interpreter::default();
    {L(0, "RETURN")}
    {L(10, "IF 1 THEN GOSUB 0 ELSE Y = 2")}
    {L(20, "END")}
    i.program.run_from_first_numbered_line();
    pa::push_frame_at(&mut i.program, 10, {idx("IF 1 THEN GOSUB 0")});
    resume_at(&mut i, 0, 0);
    assert!(turn(&mut i).is_none(), "c03: RETURN must not fail");
    assert!(pa::at(&i.program, 10, {idx("IF 1 THEN GOSUB 0")}) && pa::stack_len(&i.program) == 0);
    if st(&i) == ST_RUNNING {{
        let e = stmt(&mut i);
        assert!(e.is_none(), "c03 if-gosub-else: continuing after RETURN into a line with ELSE must not fail");
    }}
    assert!(!has_var(&i, "Y"), "c03 if-gosub-else: the ELSE part must not run when the condition was true");
    kani::cover!(true, "reached_end");
""")
S("c03_def_fn_dynamic_scope", ["C03", "C16"], "quick",
  "DEF FN binds its parameter dynamically (shadows a same-named global during the call, unshadows after); body reads globals",
  "10 DEF FNA(X) = X + Y / 20 X = 5 / 30 Y = y / 40 Z = FNA(p)",
  f"""
    let y: f64 = any_small(); let p: f64 = any_small();
    kani::assume(!y.is_nan() && !p.is_nan());
    let mut i = Interpreter::default();
    {L(10, "DEF FNA(X) = X + Y")}
    {L(20, "X = 5")}
    {L(30, "Y = #y")}
    {L(40, "Z = FNA(#p)")}
    assert!(run_tok(&mut i).is_none());
    assert!(pa::functions_len(&i.program) == 1);
    assert!(turn(&mut i).is_none());
    assert!(turn(&mut i).is_none());
    assert!(turn(&mut i).is_none());
    assert!(same_f64(num(&i, "Z"), p + y), "c03: FN parameter shadows the global X; body reads global Y");
    assert!(num(&i, "X") == 5.0, "c03: the global X is unshadowed after the call");
    assert!(pa::stack_len(&i.program) == 0, "c16: a finished function call leaves no frame");
    kani::cover!(true, "reached_end");
""", unwind=14)

S("c03_error_line_attribution", ["C03", "C01"], "quick",
  "a runtime failure reports its kind and the numbered line of the failing statement; the interpreter is idle afterwards",
  "20 Y = 1 / b (b any f64): DIVISION BY ZERO IN 20 iff b == 0",
  f"""
    let b: f64 = kani::any();
    let mut i = Interpreter::default();
    {L(10, "X = 1")}
    {L(20, "Y = 1 / #b")}
    i.program.run_from_first_numbered_line();
    resume_at(&mut i, 20, 0);
    let e = stmt(&mut i);
    if b == 0.0 {{
        assert!(e == Some((E_DIVZERO, Some(20))), "c03: DIVISION BY ZERO IN 20");
        assert!(st(&i) == ST_IDLE, "c01: idle after an error");
        assert!(!has_var(&i, "Y"), "c03: a failed assignment stores nothing");
    }} else {{
        assert!(e.is_none(), "c03: a non-zero divisor must not fail");
        assert!(has_var(&i, "Y"));
    }}
    kani::cover!(b == 0.0 && b.is_sign_negative(), "reached_negative_zero_divisor");
""", mem=8000, cost=120)

S("c03_error_line_type_mismatch", ["C03", "C01"], "quick",
  "TYPE MISMATCH reports the line of the failing statement (second statement of a multi-statement line)",
  '30 X = 1 : Y = "A" + 1',
  f"""
    let mut i = Interpreter::default();
    {L(30, 'X = 1 : Y = "A" + 1')}
    {L(40, "Z = 1")}
    assert!(run_tok(&mut i).is_none());
    assert!(turn(&mut i).is_none());   // :
    let e = stmt(&mut i);
    assert!(e == Some((E_TYPE, Some(30))), "c03: TYPE MISMATCH IN 30");
    assert!(st(&i) == ST_IDLE && num(&i, "X") == 1.0 && !has_var(&i, "Y"));
    kani::cover!(true, "reached_end");
""")
def emit(s):
    out = []
    out.append('// @verif prop=%s tier=%s timeout=%d arms=1 mem=%d cost=%d clause="%s"%s' % (
        ",".join(s["props"]), s["tier"], s["timeout"], s["mem"], s["cost"], s["clause"].replace('"', "'"),
        " cbmc=--no-propagation" if os.environ.get("NOPROP") == "1" else ""))
    out.append('// @verif sample="%s" bounds="%s"' % (s["sample"].replace('"', "'"), (s["bounds"] or "program and script as in the sample; unwind %d" % s["unwind"]).replace('"', "'")))
    out.append("#[kani::proof]")
    out.append("#[kani::unwind(%d)]" % s["unwind"])
    out.append(STUBS.rstrip())
    if s["parse_stub"]:
        out.append(STUB_PARSE.rstrip())
    out.append("fn %s() {" % s["name"])
    out.append(s["body"].rstrip())
    out.append("    core::mem::forget(i);")
    out.append("}\n")
    return "\n".join(out)


def generate(prop, tier, seed):
    text = HEADER
    n = 0
    for s in SCENARIOS:
        if prop not in s["props"]:
            continue
        if tier == "quick" and s["tier"] != "quick":
            continue
        text += "\n" + emit(s)
        n += 1
    if n == 0:
        return []
    return [("verif_session_gen", "abasic-core", "src/interpreter.rs", text)]


if __name__ == "__main__":
    for m in generate(sys.argv[1] if len(sys.argv) > 1 else "C03", sys.argv[2] if len(sys.argv) > 2 else "quick", 0):
        print(m[3])
