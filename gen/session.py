"""Session-level scenarios (token-level programs through the real interpreter turn API).
Each scenario is one Kani harness: concrete program structure, symbolic data.
Serves C01 (K-step), C03, C07, C08, C09, C10, C11, C16, C17."""
import os
import sys

sys.path.insert(0, os.path.dirname(os.path.abspath(__file__)))
from _basic import vec, toks  # noqa

PROPS = ["C01", "C03", "C07", "C08", "C09", "C10", "C11", "C16", "C17", "C18"]
NEEDS = ["verif_support", "verif_paccess", "verif_raccess", "verif_isupport"]

HEADER = """use super::*;
#[allow(unused_imports)]
use crate::interpreter::verif_isupport::*;
"""

STUBS = """#[kani::stub(std::backtrace::Backtrace::capture, crate::verif_support::stub_backtrace_capture)]
#[kani::stub(crate::string_manager::StringManager::gc, crate::verif_support::stub_gc)]
#[kani::stub(alloc::fmt::format, crate::verif_support::stub_format)]
#[kani::stub(<crate::symbol::Symbol as std::fmt::Display>::fmt, crate::verif_support::stub_symbol_display)]
#[kani::stub(<crate::tokenizer::Token as std::fmt::Display>::fmt, crate::interpreter::verif_isupport::stub_token_display)]
"""
STUB_PARSE = "#[kani::stub(crate::data::parse_data_until_colon, crate::interpreter::verif_isupport::stub_parse_data_until_colon)]\n"

SCENARIOS = []


def L(n, text, who="i"):
    return "line(&mut %s, %s, %s);" % (who, n, vec(text))


def IMM(text, who="i"):
    return "immediate(&mut %s, %s)" % (who, vec(text))


def IMMS(text, who="i"):
    return "immediate_stmt(&mut %s, %s)" % (who, vec(text))


def idx(prefix):
    """token index just after the given statement prefix"""
    return len(toks(prefix))


def S(name, props, tier, clause, sample, body, unwind=12, timeout=900, mem=5000, cost=60, parse_stub=False, bounds=""):
    SCENARIOS.append(dict(name=name, props=props, tier=tier, clause=clause, sample=sample, body=body,
                          unwind=unwind, timeout=timeout, mem=mem, cost=cost, parse_stub=parse_stub, bounds=bounds))


# ------------------------------------------------------------------------------------------------
# C03: reference step semantics
# ------------------------------------------------------------------------------------------------
S("c03_for_next_step", ["C03"], "quick",
  "FOR body runs at least once; loop variable = from; NEXT stores v+step and continues iff (step>=0 ? v+step<=to : v+step>=to)",
  "10 FOR I = a TO b STEP c / 20 X = X + 1 / 30 NEXT I, a,b,c any non-NaN f64",
  f"""
    let a: f64 = kani::any(); let b: f64 = kani::any(); let c: f64 = kani::any();
    kani::assume(!a.is_nan() && !b.is_nan() && !c.is_nan());
    let mut i = Interpreter::default();
    {L(10, "FOR I = #a TO #b STEP #c")}
    {L(20, "X = X + 1")}
    {L(30, "NEXT I")}
    assert!(run_tok(&mut i).is_none(), "c03 for: FOR statement must not fail");
    assert!(st(&i) == ST_RUNNING && pa::at(&i.program, 20, 0), "c03 for: body entered whatever from/to are");
    assert!(num(&i, "I") == a, "c03 for: loop variable starts at the from value");
    assert!(pa::loop_len(&i.program) == 1, "c03 for: one open loop");
    assert!(turn(&mut i).is_none(), "c03 for: body statement");
    assert!(num(&i, "X") == 1.0, "c03 for: body ran once");
    assert!(stmt(&mut i).is_none(), "c03 for: NEXT must not fail");
    let v = a + c;
    let cont = if c >= 0.0 {{ v <= b }} else {{ v >= b }};
    assert!(same_f64(num(&i, "I"), v), "c03 for: NEXT stores value + step, continuing or not");
    if cont {{
        assert!(pa::at(&i.program, 10, {idx("FOR I = #a TO #b STEP #c")}), "c03 for: loop continues right after the FOR statement");
        assert!(pa::loop_len(&i.program) == 1, "c03 for: loop stays open");
        kani::cover!(c < 0.0, "reached_negative_step_continue");
    }} else {{
        assert!(pa::at(&i.program, 30, {idx("NEXT I")}), "c03 for: loop exits to the statement after NEXT");
        assert!(pa::loop_len(&i.program) == 0, "c03 for: finished loop is closed");
        kani::cover!(true, "reached_exit");
    }}
""")
S("c03_for_limit_fixed_at_entry", ["C03"], "quick",
  "limit and step are captured at FOR entry: reassigning the variables they came from does not change them",
  "10 B=b : C=c / 20 FOR I = 1 TO B STEP C / 30 B = 0 : C = 0 / 40 NEXT I",
  f"""
    let b: f64 = any_small(); let c: f64 = any_small();
    kani::assume(!b.is_nan() && !c.is_nan());
    let mut i = Interpreter::default();
    set_num(&mut i, "B", b); set_num(&mut i, "C", c);
    {L(20, "FOR I = 1 TO B STEP C")}
    {L(30, "B = 0 : C = 0")}
    {L(40, "NEXT I")}
    i.program.run_from_first_numbered_line();
    i.state = InterpreterState::Running;
    assert!(turn(&mut i).is_none());  // FOR
    assert!(turn(&mut i).is_none());  // B = 0
    assert!(turn(&mut i).is_none());  // :
    assert!(turn(&mut i).is_none());  // C = 0
    assert!(num(&i, "B") == 0.0 && num(&i, "C") == 0.0);
    assert!(pa::loop_len(&i.program) == 1 && pa::loop_to(&i.program, 0) == b && pa::loop_step(&i.program, 0) == c,
        "c03 for: limit and step fixed at entry");
    assert!(stmt(&mut i).is_none());  // NEXT I
    let v = 1.0 + c;
    assert!(same_f64(num(&i, "I"), v), "c03 for: NEXT uses the step captured at entry");
    let cont = if c >= 0.0 {{ v <= b }} else {{ v >= b }};
    assert!((pa::loop_len(&i.program) == 1) == cont, "c03 for: NEXT uses the limit captured at entry");
    kani::cover!(cont, "reached_continue");
""")

S("c03_next_forgets_inner", ["C03", "C16"], "quick",
  "NEXT of an outer loop forgets the inner loops opened after it and resumes after its FOR",
  "loops [I (from line 10), J (from line 20)] open, I = 1; 30 NEXT I",
  f"""
    let mut i = Interpreter::default();
    {L(10, "FOR I = 1 TO 3")}
    {L(20, "FOR J = 1 TO 3")}
    {L(30, "NEXT I")}
    {L(40, "NEXT J")}
    i.program.run_from_first_numbered_line();
    set_num(&mut i, "I", 1.0); set_num(&mut i, "J", 1.0);
    pa::push_loop(&mut i.program, "I", 10, {idx("FOR I = 1 TO 3")}, 3.0, 1.0);
    pa::push_loop(&mut i.program, "J", 20, {idx("FOR J = 1 TO 3")}, 3.0, 1.0);
    resume_at(&mut i, 30, 0);
    assert!(stmt(&mut i).is_none(), "c03: NEXT I with J open must not fail");
    assert!(pa::loop_len(&i.program) == 1 && pa::loop_symbol_is(&i.program, 0, "I"), "c03: NEXT I forgets the J loop");
    assert!(pa::at(&i.program, 10, {idx("FOR I = 1 TO 3")}), "c03: NEXT I resumes after FOR I");
    assert!(num(&i, "I") == 2.0);
    kani::cover!(true, "reached_end");
""")

S("c03_for_reentry_drops_inner", ["C03", "C16"], "quick",
  "re-entering FOR I while a J loop opened inside it is still open replaces the I loop and forgets the J loop",
  "loops [I, J] open; 30 FOR I = 5 TO 6",
  f"""
    let mut i = Interpreter::default();
    {L(10, "FOR I = 1 TO 3")}
    {L(20, "FOR J = 1 TO 3")}
    {L(30, "FOR I = 5 TO 6")}
    i.program.run_from_first_numbered_line();
    set_num(&mut i, "I", 1.0); set_num(&mut i, "J", 1.0);
    pa::push_loop(&mut i.program, "I", 10, {idx("FOR I = 1 TO 3")}, 3.0, 1.0);
    pa::push_loop(&mut i.program, "J", 20, {idx("FOR J = 1 TO 3")}, 3.0, 1.0);
    resume_at(&mut i, 30, 0);
    assert!(stmt(&mut i).is_none());
    assert!(pa::loop_len(&i.program) == 1 && pa::loop_symbol_is(&i.program, 0, "I"), "c03: re-entering FOR I forgets the loops opened inside the old I loop");
    assert!(pa::loop_to(&i.program, 0) == 6.0 && num(&i, "I") == 5.0);
    assert!(pa::loops_pairwise_distinct(&i.program));
    kani::cover!(true, "reached_end");
""")

S("c03_next_without_for_line", ["C03", "C01"], "quick",
  "NEXT J when only I is open is NEXT WITHOUT FOR at the NEXT's line; the I loop is untouched; interpreter idle",
  "loops [I] open; 40 NEXT J",
  f"""
    let mut i = Interpreter::default();
    {L(10, "FOR I = 1 TO 3")}
    {L(40, "NEXT J")}
    i.program.run_from_first_numbered_line();
    set_num(&mut i, "I", 1.0); set_num(&mut i, "J", 1.0);
    pa::push_loop(&mut i.program, "I", 10, {idx("FOR I = 1 TO 3")}, 3.0, 1.0);
    resume_at(&mut i, 40, 0);
    let e = stmt(&mut i);
    assert!(e == Some((E_NEXT, Some(40))), "c03: NEXT J without an open J loop is NEXT WITHOUT FOR IN 40");
    assert!(st(&i) == ST_IDLE, "c01: after an error the interpreter is idle");
    assert!(pa::loop_len(&i.program) == 1, "c16: a failed NEXT does not disturb other loops");
    kani::cover!(true, "reached_end");
""")
S("c03_for_reentry_replaces", ["C03", "C16", "C09"], "quick",
  "re-entering FOR I via GOTO replaces the old I loop (no accumulation); a non-terminating program hands control back every turn",
  "0 FOR I = 1 TO 3 / 10 GOTO 0, 3 rounds",
  f"""
    let mut i = Interpreter::default();
    {L(0, "FOR I = 1 TO 3")}
    {L(10, "GOTO 0")}
    assert!(run_tok(&mut i).is_none());
    let mut k = 0;
    while k < 3 {{
        assert!(st(&i) == ST_RUNNING && pa::at(&i.program, 10, 0), "c09: a non-terminating program keeps handing control back");
        assert!(turn(&mut i).is_none());   // GOTO 0
        assert!(st(&i) == ST_RUNNING && pa::at(&i.program, 0, 0), "c03: GOTO goes to its target");
        assert!(turn(&mut i).is_none());   // FOR I again
        assert!(pa::loop_len(&i.program) == 1, "c16: re-entering a FOR does not accumulate loops");
        assert!(num(&i, "I") == 1.0, "c03: re-entered FOR restarts the variable");
        k += 1;
    }}
    kani::cover!(true, "reached_end");
""")
S("c03_gosub_return", ["C03"], "quick",
  "GOSUB pushes one frame and RETURN resumes right after the GOSUB's line number; END stops",
  "0 Y = 2 / 1 RETURN / 10 GOSUB 0 : X = 1 / 20 END (started at line 10)",
  f"""
    let mut i = Interpreter::default();
    {L(0, "Y = 2")}
    {L(1, "RETURN")}
    {L(10, "GOSUB 0 : X = 1")}
    {L(20, "END")}
    assert!(start_at(&mut i, 10).is_none());   // GOSUB 0
    assert!(pa::at(&i.program, 0, 0) && pa::stack_len(&i.program) == 1, "c03: GOSUB jumps and pushes one frame");
    assert!(turn(&mut i).is_none());  // Y = 2
    assert!(turn(&mut i).is_none());  // RETURN
    assert!(pa::at(&i.program, 10, {idx("GOSUB 0")}) && pa::stack_len(&i.program) == 0, "c03: RETURN resumes after the GOSUB target number");
    assert!(turn(&mut i).is_none());  // :
    assert!(turn(&mut i).is_none());  // X = 1
    assert!(num(&i, "X") == 1.0 && num(&i, "Y") == 2.0);
    assert!(pa::at(&i.program, 20, 0));
    assert!(turn(&mut i).is_none());  // END
    assert!(st(&i) == ST_IDLE, "c03: END stops the program");
    kani::cover!(true, "reached_end");
""")
S("c03_sequencing_extremes", ["C03", "C04", "C01"], "quick",
  "lines run in ascending numeric order whatever the entry order, including lines 0 and 18446744073709551615; falling off the end is Idle",
  "entered: u64::MAX: X=X*10+3 ; 0: X=X*10+1 ; 7: X=X*10+2",
  f"""
    let mut i = Interpreter::default();
    {L("u64::MAX", "X = X * 10 + 3")}
    {L(0, "X = X * 10 + 1")}
    {L(7, "X = X * 10 + 2")}
    assert!(run_tok(&mut i).is_none());
    assert!(num(&i, "X") == 1.0 && pa::at(&i.program, 7, 0), "c04: RUN starts at the least line");
    assert!(turn(&mut i).is_none());
    assert!(num(&i, "X") == 12.0 && pa::at(&i.program, u64::MAX, 0), "c04: successor in numeric order");
    assert!(turn(&mut i).is_none());
    assert!(num(&i, "X") == 123.0, "c04: the last line runs");
    assert!(st(&i) == ST_IDLE, "c03: falling off the end of the program is a normal stop (also at line u64::MAX)");
    kani::cover!(true, "reached_end");
""")

S("c03_read_data_restore", ["C03"], "quick",
  "READ consumes DATA items in line order across chunks; RESTORE rewinds; exhausted -> OUT OF DATA at the READ's line",
  "10 DATA d1,d2 / 20 READ A,B / 30 DATA d3 / 40 READ C / 50 RESTORE / 60 READ D / 70 READ E,F,G (third fails)",
  f"""
    let d1: f64 = kani::any(); let d2: f64 = kani::any(); let d3: f64 = kani::any();
    kani::assume(!d1.is_nan() && !d2.is_nan() && !d3.is_nan());
    let mut i = Interpreter::default();
    {L(10, "DATA #d1, #d2")}
    {L(20, "READ A, B")}
    {L(30, "DATA #d3")}
    {L(40, "READ C")}
    {L(50, "RESTORE")}
    {L(60, "READ D")}
    {L(70, "READ E, F, G")}
    assert!(run_tok(&mut i).is_none());   // DATA (no-op)
    assert!(turn(&mut i).is_none());  // READ A,B
    assert!(num(&i, "A") == d1 && num(&i, "B") == d2, "c03: READ takes items in order");
    assert!(turn(&mut i).is_none());  // DATA
    assert!(turn(&mut i).is_none());  // READ C
    assert!(num(&i, "C") == d3, "c03: READ crosses to the next DATA line");
    assert!(turn(&mut i).is_none());  // RESTORE
    assert!(turn(&mut i).is_none());  // READ D
    assert!(num(&i, "D") == d1, "c03: RESTORE rewinds to the first item");
    let e = turn_err(&mut i);         // READ E,F,G : E=d2 F=d3 G -> out of data
    assert!(e == Some((E_OUT_OF_DATA, Some(70))), "c03: exhausted data is OUT OF DATA IN 70");
    assert!(num(&i, "E") == d2 && num(&i, "F") == d3);
    kani::cover!(true, "reached_end");
""", unwind=14)



S("c03_if_then_else_values", ["C03"], "quick",
  "IF runs the THEN statement iff the condition is non-zero, else the ELSE statement; nothing of the other branch is observed",
  "10 IF c THEN X = 1 ELSE Y = 2 / 20 Z = 3, c any f64",
  f"""
    let c: f64 = kani::any();
    let mut i = Interpreter::default();
    {L(10, "IF #c THEN X = 1 ELSE Y = 2")}
    {L(20, "Z = 3")}
    assert!(run_tok(&mut i).is_none());
    if c != 0.0 {{
        assert!(num(&i, "X") == 1.0 && !has_var(&i, "Y"), "c03: true condition runs only the THEN statement");
    }} else {{
        assert!(num(&i, "Y") == 2.0 && !has_var(&i, "X"), "c03: false condition runs only the ELSE statement");
    }}
    assert!(pa::at(&i.program, 20, 0), "c03: after IF the next line follows");
    assert!(!has_var(&i, "Z"), "c09: one call runs one statement");
    kani::cover!(c.is_nan(), "reached_nan_condition");
""")

S("c03_if_then_line_number", ["C03"], "quick",
  "THEN n jumps to the line when the condition holds, otherwise the ELSE statement runs",
  "0 END / 10 IF c THEN 0 ELSE X = 2, c any f64",
  f"""
    let c: f64 = kani::any();
    let mut i = Interpreter::default();
    {L(0, "END")}
    {L(10, "IF #c THEN 0 ELSE X = 2")}
    i.program.run_from_first_numbered_line();
    resume_at(&mut i, 10, 0);
    assert!(stmt(&mut i).is_none());
    if c != 0.0 {{
        assert!(pa::at(&i.program, 0, 0) && !has_var(&i, "X"), "c03: THEN line jumps, ELSE part not run");
    }} else {{
        assert!(num(&i, "X") == 2.0, "c03: false condition runs the ELSE statement");
    }}
    kani::cover!(c == 0.0, "reached_else_statement");
""")

S("c03_if_else_line_number", ["C03"], "quick",
  "ELSE n jumps to the line when the condition fails, otherwise only the THEN statement runs",
  "0 END / 20 IF c THEN X = 1 ELSE 0, c any f64",
  f"""
    let c: f64 = kani::any();
    let mut i = Interpreter::default();
    {L(0, "END")}
    {L(20, "IF #c THEN X = 1 ELSE 0")}
    i.program.run_from_first_numbered_line();
    resume_at(&mut i, 20, 0);
    assert!(stmt(&mut i).is_none());
    if c != 0.0 {{
        assert!(num(&i, "X") == 1.0 && !pa::at(&i.program, 0, 0), "c03: true condition runs the THEN statement only");
    }} else {{
        assert!(pa::at(&i.program, 0, 0) && !has_var(&i, "X"), "c03: ELSE line jumps");
    }}
    kani::cover!(c == 0.0, "reached_else_jump");
""")
S("c03_if_gosub_else_return", ["C03"], "quick",
  "GOSUB inside a THEN that has an ELSE: after RETURN nothing fails and no effect of the ELSE part is observed",
  "0 RETURN / 10 IF 1 THEN GOSUB 0 ELSE Y = 2; state: inside the subroutine called from line 10",
  f"""
    let mut i = Interpreter::default();
    {L(0, "RETURN")}
    {L(10, "IF 1 THEN GOSUB 0 ELSE Y = 2")}
    {L(20, "END")}
    i.program.run_from_first_numbered_line();
    pa::push_frame_at(&mut i.program, 10, {idx("IF 1 THEN GOSUB 0")});
    resume_at(&mut i, 0, 0);
    assert!(turn(&mut i).is_none(), "c03: RETURN must not fail");
    assert!(pa::at(&i.program, 10, {idx("IF 1 THEN GOSUB 0")}) && pa::stack_len(&i.program) == 0);
    if st(&i) == ST_RUNNING {{
        let e = stmt(&mut i);
        assert!(e.is_none(), "c03 if-gosub-else: continuing after RETURN into a line with ELSE must not fail");
    }}
    assert!(!has_var(&i, "Y"), "c03 if-gosub-else: the ELSE part must not run when the condition was true");
    kani::cover!(true, "reached_end");
""")
S("c03_def_fn_dynamic_scope", ["C03", "C16"], "quick",
  "DEF FN binds its parameter dynamically (shadows a same-named global during the call, unshadows after); body reads globals",
  "10 DEF FNA(X) = X + Y / 20 X = 5 / 30 Y = y / 40 Z = FNA(p)",
  f"""
    let y: f64 = any_small(); let p: f64 = any_small();
    kani::assume(!y.is_nan() && !p.is_nan());
    let mut i = Interpreter::default();
    {L(10, "DEF FNA(X) = X + Y")}
    {L(20, "X = 5")}
    {L(30, "Y = #y")}
    {L(40, "Z = FNA(#p)")}
    assert!(run_tok(&mut i).is_none());
    assert!(pa::functions_len(&i.program) == 1);
    assert!(turn(&mut i).is_none());
    assert!(turn(&mut i).is_none());
    assert!(turn(&mut i).is_none());
    assert!(same_f64(num(&i, "Z"), p + y), "c03: FN parameter shadows the global X; body reads global Y");
    assert!(num(&i, "X") == 5.0, "c03: the global X is unshadowed after the call");
    assert!(pa::stack_len(&i.program) == 0, "c16: a finished function call leaves no frame");
    kani::cover!(true, "reached_end");
""", unwind=14)

S("c03_error_line_attribution", ["C03", "C01"], "quick",
  "a runtime failure reports its kind and the numbered line of the failing statement; the interpreter is idle afterwards",
  "20 Y = 1 / b (b any f64): DIVISION BY ZERO IN 20 iff b == 0",
  f"""
    let b: f64 = kani::any();
    let mut i = Interpreter::default();
    {L(10, "X = 1")}
    {L(20, "Y = 1 / #b")}
    i.program.run_from_first_numbered_line();
    resume_at(&mut i, 20, 0);
    let e = stmt(&mut i);
    if b == 0.0 {{
        assert!(e == Some((E_DIVZERO, Some(20))), "c03: DIVISION BY ZERO IN 20");
        assert!(st(&i) == ST_IDLE, "c01: idle after an error");
        assert!(!has_var(&i, "Y"), "c03: a failed assignment stores nothing");
    }} else {{
        assert!(e.is_none(), "c03: a non-zero divisor must not fail");
        assert!(has_var(&i, "Y"));
    }}
    kani::cover!(b == 0.0 && b.is_sign_negative(), "reached_negative_zero_divisor");
""", mem=8000, cost=120)

S("c03_error_line_type_mismatch", ["C03", "C01"], "quick",
  "TYPE MISMATCH reports the line of the failing statement (second statement of a multi-statement line)",
  '30 X = 1 : Y = "A" + 1',
  f"""
    let mut i = Interpreter::default();
    {L(30, 'X = 1 : Y = "A" + 1')}
    {L(40, "Z = 1")}
    assert!(run_tok(&mut i).is_none());
    assert!(turn(&mut i).is_none());   // :
    let e = stmt(&mut i);
    assert!(e == Some((E_TYPE, Some(30))), "c03: TYPE MISMATCH IN 30");
    assert!(st(&i) == ST_IDLE && num(&i, "X") == 1.0 && !has_var(&i, "Y"));
    kani::cover!(true, "reached_end");
""")
# ------------------------------------------------------------------------------------------------
# shared dirty pre-state (C10, C11, C07): suspended in the middle of a program
# ------------------------------------------------------------------------------------------------
DIRTY_PROGRAM = f"""
    let mut i = Interpreter::default();
    {L(5, "DATA 11, 22, 33")}
    {L(10, "X = X + 1")}
    {L(20, "Y = 7")}
    {L(30, "END")}
"""

DIRTY_STATE = """
    i.program.run_from_first_numbered_line();
    set_num(&mut i, "X", 5.0);
    let r0 = i.arrays.set_value_at_index(&sym("A"), &vec![2], Value::Number(9.0));
    kani::assume(r0.is_ok());
    core::mem::forget(r0);
    pa::push_frames(&mut i.program, 2, 10);
    pa::push_loop(&mut i.program, "I", 10, 0, 3.0, 1.0);
    pa::add_function(&mut i.program, "FNA", "Q", 10, 2);
    let d0 = i.program.next_data_element();     // data cursor now past the first item
    core::mem::forget(d0);
"""

# ------------------------------------------------------------------------------------------------
# C10
# ------------------------------------------------------------------------------------------------
S("c10_run_resets_everything", ["C10"], "quick",
  "RUN (through the real text-level command) from a dirty session: variables, arrays, loops, frames, functions, data cursor, breakpoint and a pending reply are all reset; the random state is kept; execution starts at the first line",
  "program 5 DATA.. / 10 X = X + 1 / 20.. ; state: X=5, array A, 2 frames, loop I, FNA defined, data cursor advanced, breakpoint at line 20, reply '7' pending, seed any u64; then RUN",
  DIRTY_PROGRAM + DIRTY_STATE + f"""
    let seed: u64 = kani::any();
    i.randomize(seed);
    pa::set_breakpoint(&mut i.program, 20, 0);
    i.program.set_and_goto_immediate_line(vec![]);
    i.input = Some(String::from("7"));
    i.state = InterpreterState::Idle;
    assert!(cmd(&mut i, "RUN").is_none(), "c10: RUN must not fail");
    // RUN executed the first statement (the DATA line is a no-op) and moved to line 10
    assert!(st(&i) == ST_RUNNING && pa::at(&i.program, 10, 0), "c10: RUN starts at the first line");
    assert!(!has_var(&i, "X"), "c10: variables are cleared by RUN");
    assert!(!has_array(&i, "A"), "c10: arrays are cleared by RUN");
    assert!(pa::stack_len(&i.program) == 0, "c10: subroutine stack is cleared by RUN");
    assert!(pa::loop_len(&i.program) == 0, "c10: open loops are cleared by RUN");
    assert!(pa::functions_len(&i.program) == 0, "c10: defined functions are cleared by RUN");
    assert!(!pa::data_iterator_started(&i.program), "c10: the data cursor is reset by RUN");
    assert!(pa::breakpoint(&i.program).is_none(), "c10: a pending breakpoint is cleared by RUN");
    assert!(!pending_input(&i), "c10: an unconsumed input reply is discarded by RUN");
    assert!(rng_seed(&i) == seed, "c10: RUN keeps the random-number state");
    kani::cover!(true, "reached_end");
""", unwind=16, timeout=1200, mem=8000, cost=200)

S("c10_run_then_first_statement_as_fresh", ["C10"], "quick",
  "after RUN from a dirty session the first statements behave as in a fresh interpreter (X = X + 1 gives 1, READ gives the first item)",
  "dirty state as above (token-level RUN); 10 X = X + 1 ; then immediate-free continuation: 20 READ D",
  f"""
    let mut i = Interpreter::default();
    {L(5, "DATA 11, 22, 33")}
    {L(10, "X = X + 1")}
    {L(20, "READ D")}
""" + DIRTY_STATE + f"""
    pa::set_breakpoint(&mut i.program, 20, 0);
    i.program.set_and_goto_immediate_line(vec![]);
    i.state = InterpreterState::Idle;
    assert!(run_tok(&mut i).is_none());      // DATA
    assert!(turn(&mut i).is_none());          // X = X + 1
    assert!(num(&i, "X") == 1.0, "c10: X starts from 0 again after RUN");
    assert!(turn(&mut i).is_none());          // READ D
    assert!(num(&i, "D") == 11.0, "c10: READ starts from the first DATA item after RUN");
    assert!(st(&i) == ST_IDLE);
    kani::cover!(true, "reached_end");
""", unwind=16)

# ------------------------------------------------------------------------------------------------
# C11
# ------------------------------------------------------------------------------------------------
def c11(name, edit_line, edit_text, what, first_item):
    S(name, ["C11"], "quick",
      "after a successful edit (%s) of a suspended program: CONT -> CAN'T CONTINUE, RETURN -> RETURN WITHOUT GOSUB, NEXT -> NEXT WITHOUT FOR, functions gone, READ restarts from the first DATA item of the edited program, variables and arrays kept; no probe panics" % what,
      "dirty state (breakpoint at 20, 2 frames, loop I, FNA, data cursor advanced, X=5, A(2)=9); edit: line %s := [%s]; probes CONT, RETURN, NEXT I, READ" % (edit_line, edit_text),
      DIRTY_PROGRAM + DIRTY_STATE + f"""
    pa::set_breakpoint(&mut i.program, 20, 0);
    i.program.set_and_goto_immediate_line(vec![]);
    i.state = InterpreterState::Idle;
    {L(edit_line, edit_text)}
    assert!(pa::breakpoint(&i.program).is_none() && pa::stack_len(&i.program) == 0 && pa::loop_len(&i.program) == 0
        && pa::functions_len(&i.program) == 0 && !pa::data_iterator_started(&i.program) && pa::at_immediate(&i.program),
        "c11: an edit drops breakpoint, frames, loops, functions and the data cursor");
    let c = i.program.continue_from_breakpoint();
    assert!(matches!(&c, Err(e) if err_code(&e.error) == E_CONT), "c11: CONT after an edit is CAN'T CONTINUE");
    core::mem::forget(c);
    assert!({IMM("RETURN")} == Some(E_RETURN), "c11: RETURN after an edit is RETURN WITHOUT GOSUB");
    assert!({IMM("NEXT I")} == Some(E_NEXT), "c11: NEXT after an edit is NEXT WITHOUT FOR");
    assert!({IMM("READ D")}.is_none(), "c11: READ after an edit must work");
    assert!(num(&i, "D") == {first_item}, "c11: READ restarts from the first DATA item of the edited program");
    assert!(num(&i, "X") == 5.0 && has_array(&i, "A"), "c11: variables and arrays survive an edit");
    assert!(cell(&mut i, "A", 2) == 9.0, "c11: array contents survive an edit");
    kani::cover!(true, "reached_end");
""", unwind=16, timeout=1200, mem=8000, cost=150)

c11("c11_edit_replace_existing", 20, "Z = 1", "replace line 20", "11.0")
c11("c11_edit_add_new", 15, "Z = 1", "add line 15", "11.0")
c11("c11_edit_delete", 20, "", "delete line 20", "11.0")
c11("c11_edit_data_line", 5, "DATA 44", "replace the DATA line", "44.0")

S("c11_edit_after_clean_finish", ["C11"], "quick",
  "after a run that finished normally (nothing suspended: no breakpoint, no frames, no open loops) an edit still forgets the defined functions and rewinds the DATA cursor",
  "function FNA registered and data cursor advanced, but no breakpoint / frames / loops; edit: line 20 := [Z = 1]; probe READ",
  DIRTY_PROGRAM + f"""
    i.program.run_from_first_numbered_line();
    set_num(&mut i, "X", 5.0);
    pa::add_function(&mut i.program, "FNA", "Q", 10, 2);
    let d0 = i.program.next_data_element();
    core::mem::forget(d0);
    i.program.set_and_goto_immediate_line(vec![]);
    i.state = InterpreterState::Idle;
    {L(20, "Z = 1")}
    assert!(pa::functions_len(&i.program) == 0, "c11: an edit forgets defined functions even when nothing was suspended");
    assert!(!pa::data_iterator_started(&i.program), "c11: an edit rewinds the DATA cursor even when nothing was suspended");
    assert!({IMM("READ D")}.is_none());
    assert!(num(&i, "D") == 11.0, "c11: READ restarts from the first DATA item after an edit");
    assert!(num(&i, "X") == 5.0, "c11: variables survive an edit");
    kani::cover!(true, "reached_end");
""", unwind=16, timeout=900, mem=6000, cost=100)

S("c11_goto_deleted_line_is_error", ["C11", "C01"], "quick",
  "after deleting a line, nothing dereferences it: GOTO to it is UNDEF'D STATEMENT (no panic in the line lookup)",
  "lines 0,10; delete 0; immediate GOTO 0",
  f"""
    let mut i = Interpreter::default();
    {L(0, "END")}
    {L(10, "X = 1")}
    {L(0, "")}
    assert!({IMM("GOTO 0")} == Some(E_UNDEF), "c11: jumping to a deleted line is UNDEF'D STATEMENT");
    assert!(st(&i) == ST_IDLE);
    kani::cover!(true, "reached_end");
""")

# ------------------------------------------------------------------------------------------------
# C07
# ------------------------------------------------------------------------------------------------
S("c07_break_cont_roundtrip", ["C07"], "quick",
  "break then CONT restores the exact location and leaves frames, loops, data cursor, variables untouched; BREAK names the line",
  "dirty state, running at line 20 token t (t any <= 3); break_at_current_location; continue_from_breakpoint",
  DIRTY_PROGRAM + DIRTY_STATE + f"""
    let t: usize = kani::any();
    kani::assume(t <= 3);
    resume_at(&mut i, 20, t);
    i.break_at_current_location();
    assert!(st(&i) == ST_IDLE, "c07: break returns to idle");
    assert!(out_len(&i) == 1 && out_kind(&i, 0) == O_BREAK, "c07: one BREAK notice");
    assert!(matches!(&i.output[0], InterpreterOutput::Break(Some(20))), "c07: BREAK names the interrupted line");
    assert!(pa::at_immediate(&i.program), "c07: at a breakpoint the interpreter is in immediate mode");
    let c = i.program.continue_from_breakpoint();
    assert!(c.is_ok(), "c07: CONT after a break must work");
    core::mem::forget(c);
    assert!(pa::at(&i.program, 20, t), "c07: CONT resumes exactly where the break happened");
    assert!(pa::breakpoint(&i.program).is_none());
    assert!(pa::stack_len(&i.program) == 2 && pa::loop_len(&i.program) == 1 && pa::functions_len(&i.program) == 1
        && pa::data_iterator_started(&i.program), "c07: frames, loops, functions and data cursor survive break/CONT");
    assert!(num(&i, "X") == 5.0);
    kani::cover!(t == 3, "reached_mid_line");
""", unwind=16)

S("c07_inspect_at_breakpoint", ["C07"], "quick",
  "a non-assigning immediate statement at a breakpoint (PRINT X) leaves the continuation intact",
  "dirty state, break at (20,0); immediate PRINT X; then CONT",
  DIRTY_PROGRAM + DIRTY_STATE + f"""
    resume_at(&mut i, 20, 0);
    i.break_at_current_location();
    assert!({IMM("PRINT X")}.is_none(), "c07: PRINT at a breakpoint must work");
    assert!(st(&i) == ST_IDLE);
    assert!(pa::breakpoint(&i.program).is_some(), "c07: inspecting does not discard the breakpoint");
    assert!(pa::stack_len(&i.program) == 2 && pa::loop_len(&i.program) == 1 && pa::data_iterator_started(&i.program),
        "c07: inspecting at a breakpoint keeps frames, loops and data cursor");
    let c = i.program.continue_from_breakpoint();
    assert!(c.is_ok());
    core::mem::forget(c);
    assert!(pa::at(&i.program, 20, 0) && pa::stack_len(&i.program) == 2, "c07: CONT resumes the interrupted program");
    kani::cover!(true, "reached_end");
""", unwind=16)

S("c07_failing_inspect_at_breakpoint", ["C07", "C01"], "quick",
  "an immediate statement that fails at a breakpoint (X = 1 / 0) does not change the continuation",
  "dirty state, break at (20,0); immediate X = 1 / 0 (fails); then CONT",
  DIRTY_PROGRAM + DIRTY_STATE + f"""
    resume_at(&mut i, 20, 0);
    i.break_at_current_location();
    assert!({IMMS("X = 1 / 0")} == Some(E_DIVZERO), "c07: the inspection statement fails");
    assert!(st(&i) == ST_IDLE, "c01: idle after an error");
    assert!(pa::breakpoint(&i.program).is_some(), "c07: a failing inspection does not discard the breakpoint");
    assert!(pa::stack_len(&i.program) == 2 && pa::loop_len(&i.program) == 1, "c07: a failing inspection keeps frames and loops");
    assert!(num(&i, "X") == 5.0, "c07: a failing assignment assigns nothing");
    let c = i.program.continue_from_breakpoint();
    assert!(c.is_ok());
    core::mem::forget(c);
    assert!(pa::at(&i.program, 20, 0));
    kani::cover!(true, "reached_end");
""", unwind=16)


S("c07_assign_at_breakpoint", ["C07"], "quick",
  "assigning at a breakpoint changes exactly that variable; CONT resumes where the program stopped",
  "dirty state, break at (20,0); immediate X = v (v any non-NaN); CONT",
  DIRTY_PROGRAM + DIRTY_STATE + f"""
    let v: f64 = kani::any();
    kani::assume(!v.is_nan());
    resume_at(&mut i, 20, 0);
    i.break_at_current_location();
    assert!({IMM("X = #v")}.is_none());
    assert!(num(&i, "X") == v && has_array(&i, "A"), "c07: the assignment takes effect, nothing else changes");
    let c = i.program.continue_from_breakpoint();
    assert!(c.is_ok());
    core::mem::forget(c);
    assert!(pa::at(&i.program, 20, 0) && pa::stack_len(&i.program) == 2 && pa::loop_len(&i.program) == 1);
    kani::cover!(true, "reached_end");
""", unwind=16)

S("c07_stop_statement_is_break", ["C07"], "quick",
  "STOP behaves as a host break at the statement after it: BREAK IN line, idle, CONT continues after the STOP",
  "10 X = 1 : STOP : Y = 2",
  f"""
    let mut i = Interpreter::default();
    {L(10, "X = 1 : STOP : Y = 2")}
    assert!(run_tok(&mut i).is_none());
    assert!(turn(&mut i).is_none());   // :
    assert!(turn(&mut i).is_none());   // STOP
    assert!(st(&i) == ST_IDLE && count_kind(&i, O_BREAK) == 1, "c07: STOP stops with a BREAK notice");
    assert!(!has_var(&i, "Y"), "c07: nothing after STOP ran");
    let c = i.program.continue_from_breakpoint();
    assert!(c.is_ok());
    core::mem::forget(c);
    assert!(pa::at(&i.program, 10, {idx("X = 1 : STOP")}), "c07: CONT resumes right after the STOP");
    kani::cover!(true, "reached_end");
""", unwind=16)

# ------------------------------------------------------------------------------------------------
# C08
# ------------------------------------------------------------------------------------------------
S("c08_input_suspends", ["C08", "C09", "C01"], "quick",
  "reaching INPUT: awaiting input, nothing after it executed, cursor exactly at the INPUT token; frames and loops untouched",
  "10 A = 1 : INPUT X : B = 2, with 2 frames and a loop open",
  f"""
    let mut i = Interpreter::default();
    {L(10, "A = 1 : INPUT X : B = 2")}
    i.program.run_from_first_numbered_line();
    pa::push_frames(&mut i.program, 2, 10);
    pa::push_loop(&mut i.program, "I", 10, 0, 3.0, 1.0);
    resume_at(&mut i, 10, 0);
    assert!(turn(&mut i).is_none());   // A = 1
    assert!(turn(&mut i).is_none());   // :
    assert!(turn(&mut i).is_none());   // INPUT X
    assert!(st(&i) == ST_AWAITING, "c08: INPUT awaits input");
    assert!(pa::at(&i.program, 10, {idx("A = 1 :")}), "c08: the cursor is at the INPUT token");
    assert!(num(&i, "A") == 1.0 && !has_var(&i, "B") && !has_var(&i, "X"), "c08: nothing beyond the statements before INPUT ran");
    assert!(out_len(&i) == 0, "c08: suspension produces no output");
    assert!(pa::stack_len(&i.program) == 2 && pa::loop_len(&i.program) == 1);
    kani::cover!(true, "reached_end");
""", unwind=16)

S("c08_second_input_on_a_line", ["C08", "C01"], "quick",
  "two INPUT statements on one line: the second one suspends at ITS token (not at the first INPUT), with the first variable's value kept",
  "10 INPUT A : INPUT X : B = 2 ; A already answered; cursor at the second INPUT",
  f"""
    let mut i = Interpreter::default();
    {L(10, "INPUT A : INPUT X : B = 2")}
    i.program.run_from_first_numbered_line();
    set_num(&mut i, "A", 4.0);
    resume_at(&mut i, 10, {idx("INPUT A :")});
    assert!(turn(&mut i).is_none());   // INPUT X: no reply pending -> suspend
    assert!(st(&i) == ST_AWAITING, "c08: INPUT awaits input");
    assert!(pa::at(&i.program, 10, {idx("INPUT A :")}), "c08: the cursor is at the INPUT token being executed, not at an earlier INPUT on the line");
    assert!(num(&i, "A") == 4.0 && !has_var(&i, "X") && !has_var(&i, "B"));
    kani::cover!(true, "reached_end");
""", unwind=16)

def c08_reply(name, cls, target, desc, checks, clsdesc):
    S(name, ["C08"], "quick",
      "reply class %s to INPUT %s: %s" % (clsdesc, target, desc),
      "10 A = 1 : INPUT %s : B = 2 awaiting at the INPUT token; reply %s with d,e any digit, x any letter" % (target, clsdesc),
      f"""
    let d: u8 = kani::any(); let e: u8 = kani::any(); let x: u8 = kani::any();
    kani::assume(d <= 9 && e <= 9 && x <= 25);
    let mut i = Interpreter::default();
    {L(10, "A = 1 : INPUT " + target + " : B = 2")}
    i.program.run_from_first_numbered_line();
    set_num(&mut i, "A", 1.0);
    pa::set_location(&mut i.program, 10, {idx("A = 1 :")});
    i.state = InterpreterState::AwaitingInput;
    i.provide_input(reply_text({cls}, d, e, x));
    assert!(st(&i) == ST_RUNNING, "c08: a reply makes the interpreter runnable");
    let r = stmt(&mut i);
    assert!(r.is_none(), "c08: consuming a reply must not fail");
    assert!(!has_var(&i, "B") && num(&i, "A") == 1.0, "c08: only the INPUT statement is re-executed");
    assert!(!pending_input(&i), "c08: the reply is consumed");
""" + checks + """
    kani::cover!(true, "reached_end");
""", unwind=16, parse_stub=True, timeout=900, mem=6000, cost=80)

AFTER = idx("A = 1 : INPUT X")
AT = idx("A = 1 :")
STORED = f"""
    assert!(num(&i, "X") == d as f64, "c08: the first item is stored as an assignment would");
    assert!(pa::at(&i.program, 10, {AFTER}) && st(&i) == ST_RUNNING, "c08: execution continues after the INPUT statement");
"""
REENTER = f"""
    assert!(st(&i) == ST_AWAITING && pa::at(&i.program, 10, {AT}), "c08: REENTER asks again at the same INPUT");
    assert!(out_len(&i) == 1 && out_kind(&i, 0) == O_REENTER, "c08: exactly one REENTER");
    assert!(!has_var(&i, "X"), "c08: nothing is stored on REENTER");
"""
c08_reply("c08_reply_number", 0, "X", "stored, no notice", STORED + '    assert!(out_len(&i) == 0, "c08: no notice for an exact reply");', "`d`")
c08_reply("c08_reply_text_to_numeric", 1, "X", "REENTER, same request again, nothing else repeated", REENTER, "`x`")
c08_reply("c08_reply_empty_to_numeric", 2, "X", "REENTER", REENTER, "empty")
c08_reply("c08_reply_two_items", 3, "X", "first stored, one EXTRA IGNORED", STORED + '    assert!(out_len(&i) == 1 && out_kind(&i, 0) == O_EXTRA, "c08: surplus items give exactly one EXTRA IGNORED");', "`d,e`")
c08_reply("c08_reply_colon_rest", 4, "X", "first stored, one EXTRA IGNORED", STORED + '    assert!(out_len(&i) == 1 && out_kind(&i, 0) == O_EXTRA, "c08: text after a colon gives exactly one EXTRA IGNORED");', "`d:e`")
c08_reply("c08_reply_quoted_to_numeric", 5, "X", "REENTER", REENTER, '`"x"`')
c08_reply("c08_reply_text_to_string", 1, "X$", "stored as text", f"""
    assert!(strvar_is(&i, "X$", if x == 0 {{ "A" }} else {{ "?" }}) || x != 0, "c08: text reply stored in a string variable");
    assert!(has_var(&i, "X$") && pa::at(&i.program, 10, {idx("A = 1 : INPUT X$")}), "c08: stored and execution continues");
    assert!(out_len(&i) == 0);
""", "`x`")

S("c08_reenter_twice", ["C08"], "thorough",
  "two REENTER repetitions then a good reply: the same request each time, nothing skipped or repeated",
  "INPUT X awaiting; replies `x`, `x`, `d`",
  f"""
    let d: u8 = kani::any(); let x: u8 = kani::any();
    kani::assume(d <= 9 && x <= 25);
    let mut i = Interpreter::default();
    {L(10, "A = A + 1 : INPUT X : B = 2")}
    i.program.run_from_first_numbered_line();
    set_num(&mut i, "A", 1.0);
    pa::set_location(&mut i.program, 10, {idx("A = A + 1 :")});
    i.state = InterpreterState::AwaitingInput;
    let mut k = 0;
    while k < 2 {{
        i.provide_input(reply_text(1, d, d, x));
        assert!(turn(&mut i).is_none());
        assert!(st(&i) == ST_AWAITING && pa::at(&i.program, 10, {idx("A = A + 1 :")}) && num(&i, "A") == 1.0);
        k += 1;
    }}
    i.provide_input(reply_text(0, d, d, x));
    assert!(stmt(&mut i).is_none());
    assert!(num(&i, "X") == d as f64 && num(&i, "A") == 1.0 && count_kind(&i, O_REENTER) == 2);
    kani::cover!(true, "reached_end");
""", unwind=16, parse_stub=True, timeout=1500, mem=8000, cost=200)

S("c08_input_array_target", ["C08"], "thorough",
  "INPUT with an array target: the reply is stored into the cell and execution continues after the statement",
  "10 INPUT A(1) : B = 2 awaiting at the INPUT token; reply `d`",
  f"""
    let d: u8 = kani::any();
    kani::assume(d <= 9);
    let mut i = Interpreter::default();
    {L(10, "INPUT A(1) : B = 2")}
    i.program.run_from_first_numbered_line();
    pa::set_location(&mut i.program, 10, 0);
    i.state = InterpreterState::AwaitingInput;
    i.provide_input(reply_text(0, d, d, 0));
    assert!(stmt(&mut i).is_none());
    assert!(has_array(&i, "A"), "c08: the target array is created");
    assert!(pa::at(&i.program, 10, {idx("INPUT A(1)")}) && !has_var(&i, "B"), "c08: execution continues after the INPUT statement");
    assert!(cell(&mut i, "A", 1) == d as f64, "c08: the reply is stored in the array cell");
    kani::cover!(true, "reached_end");
""", unwind=16, parse_stub=True, mem=6000)
S("c08_input_in_then_with_else", ["C08"], "quick",
  "INPUT inside THEN with an ELSE part: after the reply the ELSE part is neither executed nor an error",
  "10 IF 1 THEN INPUT X ELSE Y = 2 ; awaiting at the INPUT token; reply `d`; then the next statement",
  f"""
    let d: u8 = kani::any();
    kani::assume(d <= 9);
    let mut i = Interpreter::default();
    {L(10, "IF 1 THEN INPUT X ELSE Y = 2")}
    {L(20, "END")}
    i.program.run_from_first_numbered_line();
    pa::set_location(&mut i.program, 10, {idx("IF 1 THEN")});
    i.state = InterpreterState::AwaitingInput;
    i.provide_input(reply_text(0, d, d, 0));
    assert!(turn(&mut i).is_none(), "c08: consuming the reply must not fail");
    assert!(num(&i, "X") == d as f64);
    if st(&i) == ST_RUNNING && pa::at(&i.program, 10, {idx("IF 1 THEN INPUT X")}) {{
        let e = stmt(&mut i);
        assert!(e.is_none(), "c08 input-then-else: continuing after INPUT inside THEN must not fail at ELSE");
    }}
    assert!(!has_var(&i, "Y"), "c08 input-then-else: the ELSE part must not run");
    kani::cover!(true, "reached_end");
""", unwind=16, parse_stub=True, mem=6000)

# ------------------------------------------------------------------------------------------------
# C09
# ------------------------------------------------------------------------------------------------
S("c09_one_statement_per_call", ["C09"], "quick",
  "each call executes at most one statement of the line; with tracing on each call emits exactly one trace record for a numbered line",
  "10 X = 1 : Y = 2 : Z = 3 / 20 W = 4, tracing on",
  f"""
    let mut i = Interpreter::default();
    i.enable_tracing = true;
    {L(10, "X = 1 : Y = 2 : Z = 3")}
    {L(20, "W = 4")}
    assert!(run_tok(&mut i).is_none());
    assert!(num(&i, "X") == 1.0 && !has_var(&i, "Y"), "c09: the first call runs the first statement only");
    assert!(count_kind(&i, O_TRACE) == 1 && trace_line(&i, 0) == 10, "c09: one trace record per call");
    assert!(pa::at(&i.program, 10, {idx("X = 1")}), "c09: the cursor stops at the statement separator");
    assert!(turn(&mut i).is_none());   // :
    assert!(turn(&mut i).is_none());   // Y = 2
    assert!(num(&i, "Y") == 2.0 && !has_var(&i, "Z"));
    assert!(count_kind(&i, O_TRACE) == 3, "c09: one trace record per call");
    assert!(turn(&mut i).is_none());   // :
    assert!(turn(&mut i).is_none());   // Z = 3  -> line exhausted -> moves to 20 without executing it
    assert!(num(&i, "Z") == 3.0 && !has_var(&i, "W") && pa::at(&i.program, 20, 0), "c09: moving to the next line does not execute it");
    assert!(st(&i) == ST_RUNNING);
    kani::cover!(true, "reached_end");
""", unwind=16)

S("c09_if_counts_as_one", ["C09"], "quick",
  "an IF together with the single statement it selects is one call: only the first statement of a multi-statement THEN runs in that call",
  "10 IF c THEN X = 1 : Y = 2, c any f64",
  f"""
    let c: f64 = kani::any();
    let mut i = Interpreter::default();
    i.enable_tracing = true;
    {L(10, "IF #c THEN X = 1 : Y = 2")}
    i.program.run_from_first_numbered_line();
    resume_at(&mut i, 10, 0);
    assert!(stmt(&mut i).is_none());
    assert!(!has_var(&i, "Y"), "c09: the second statement of the THEN part is not run by the same call");
    assert!(has_var(&i, "X") == (c != 0.0), "c09: IF plus the statement it selects is one call");
    let tr = count_kind(&i, O_TRACE);
    assert!(tr >= 1 && tr <= 2, "c09: at most one extra trace record for the statement selected by IF");
    kani::cover!(c == 0.0, "reached_false");
""", unwind=16)

S("c09_else_tail_is_a_separate_call", ["C09"], "quick",
  "IF with an ELSE part followed by further statements on the line: the call that runs the IF runs only the selected statement, never the statements after the ELSE statement",
  "10 IF c THEN X = 1 ELSE Y = 2 : Z = 3, c any f64",
  f"""
    let c: f64 = kani::any();
    let mut i = Interpreter::default();
    i.enable_tracing = true;
    {L(10, "IF #c THEN X = 1 ELSE Y = 2 : Z = 3")}
    i.program.run_from_first_numbered_line();
    resume_at(&mut i, 10, 0);
    assert!(stmt(&mut i).is_none());
    assert!(!has_var(&i, "Z"), "c09: statements after the ELSE statement are not run by the call that ran the IF");
    assert!(has_var(&i, "X") == (c != 0.0) && has_var(&i, "Y") == (c == 0.0), "c09: exactly the selected statement ran");
    assert!(count_kind(&i, O_TRACE) <= 2, "c09: at most one extra trace record for the statement selected by IF");
    kani::cover!(c == 0.0, "reached_else");
""", unwind=16)

# ------------------------------------------------------------------------------------------------
# C16 (session level)
# ------------------------------------------------------------------------------------------------
def c16_gosub(depth):
    S("c16_gosub_at_depth_%d" % depth, ["C16", "C03", "C01"], "quick",
      "GOSUB with %d frames open: %s" % (depth, "accepted, 32 frames" if depth == 31 else "OUT OF MEMORY (STACK OVERFLOW), nothing changed, interpreter usable"),
      "%d frames pre-pushed; 10 GOSUB 0" % depth,
      f"""
    let mut i = Interpreter::default();
    {L(0, "END")}
    {L(10, "GOSUB 0")}
    i.program.run_from_first_numbered_line();
    pa::push_frames(&mut i.program, {depth}, 10);
    resume_at(&mut i, 10, 0);
    let e = stmt(&mut i);
""" + ("""
    assert!(e.is_none(), "c16: the 32nd frame is allowed");
    assert!(pa::stack_len(&i.program) == 32 && pa::at(&i.program, 0, 0));
""" if depth == 31 else f"""
    assert!(e == Some((E_OOM_STACK, Some(10))), "c16: a 33rd frame is OUT OF MEMORY (STACK OVERFLOW) IN 10");
    assert!(pa::stack_len(&i.program) == 32, "c16: never more than 32 frames");
    assert!(st(&i) == ST_IDLE, "c16: the interpreter stays usable");
    assert!({IMM("X = 1")}.is_none() && num(&i, "X") == 1.0, "c16: a further line is accepted after the cap error");
""") + """
    kani::cover!(true, "reached_end");
""", unwind=36, timeout=1200, mem=8000, cost=150)

c16_gosub(31)
c16_gosub(32)

S("c16_fn_call_at_depth_32", ["C16", "C03"], "thorough",
  "a user-function call with 32 frames open is OUT OF MEMORY (STACK OVERFLOW); with 31 it is evaluated and its frame popped",
  "5 DEF FNA(Q) = Q + 1 registered; d frames (31 or 32, symbolic choice); 10 Z = FNA(2)",
  f"""
    let full: bool = kani::any();
    let mut i = Interpreter::default();
    {L(5, "DEF FNA(Q) = Q + 1")}
    {L(10, "Z = FNA(2)")}
    i.program.run_from_first_numbered_line();
    pa::add_function(&mut i.program, "FNA", "Q", 5, {idx("DEF FNA(Q) =")});
    if full {{ pa::push_frames(&mut i.program, 32, 10); }} else {{ pa::push_frames(&mut i.program, 31, 10); }}
    resume_at(&mut i, 10, 0);
    let e = stmt(&mut i);
    if full {{
        assert!(e == Some((E_OOM_STACK, Some(10))), "c16: function call at the frame cap is OUT OF MEMORY (STACK OVERFLOW)");
        assert!(pa::stack_len(&i.program) == 32 && !has_var(&i, "Z"));
    }} else {{
        assert!(e.is_none() && num(&i, "Z") == 3.0, "c16: below the cap the call is evaluated");
        assert!(pa::stack_len(&i.program) == 31, "c16: the call frame is popped");
    }}
    kani::cover!(full, "reached_cap");
""", unwind=36, timeout=1500, mem=10000, cost=300)

S("c16_for_at_loop_cap", ["C16"], "thorough",
  "FOR with 32 distinct loops open: a new variable is OUT OF MEMORY (STACK OVERFLOW); re-entering an open one drops it and everything above and stays within the cap; loop variables stay pairwise distinct",
  "32 loops AA..BF pre-pushed; 10 FOR ZZ = 1 TO 2 (new) or FOR AC = 1 TO 2 (existing, position 2)",
  f"""
    let existing: bool = kani::any();
    let mut i = Interpreter::default();
    {L(10, "FOR ZZ = 1 TO 2")}
    {L(20, "FOR AC = 1 TO 2")}
    i.program.run_from_first_numbered_line();
    pa::push_distinct_loops(&mut i.program, 32);
    assert!(pa::loops_pairwise_distinct(&i.program));
    if existing {{
        resume_at(&mut i, 20, 0);
        assert!(stmt(&mut i).is_none(), "c16: re-entering an open loop at the cap is allowed");
        assert!(pa::loop_len(&i.program) == 3, "c16: re-entering FOR drops the old loop and everything above it");
        assert!(pa::loop_symbol_is(&i.program, 2, "AC") && num(&i, "AC") == 1.0);
    }} else {{
        resume_at(&mut i, 10, 0);
        let e = stmt(&mut i);
        assert!(e == Some((E_OOM_STACK, Some(10))), "c16: a 33rd open loop is OUT OF MEMORY (STACK OVERFLOW)");
        assert!(pa::loop_len(&i.program) == 32, "c16: never more than 32 open loops");
        assert!(st(&i) == ST_IDLE);
    }}
    assert!(pa::loops_pairwise_distinct(&i.program), "c16: no two open loops for the same variable");
    kani::cover!(existing, "reached_reentry");
""", unwind=40, timeout=1800, mem=10000, cost=400)

def c16_typed(name, text, var, code, keep_check, what, tier="quick"):
    S(name, ["C16", "C06"], tier,
      "name-suffix typing through the statement: %s" % what,
      "X = 5 and S$ = 'OLD' stored; immediate: %s" % text,
      f"""
    let mut i = Interpreter::default();
    set_num(&mut i, "X", 5.0);
    let r0 = i.variables.set(sym("S$"), Value::String(std::rc::Rc::new(String::from("OLD"))));
    kani::assume(r0.is_ok());
    core::mem::forget(r0);
    i.program.set_and_goto_immediate_line({vec(text)});
    i.state = InterpreterState::Running;
    let e = stmt(&mut i);
    assert!(e == Some(({code}, None)), "c16 typed: {what}");
    assert!(num(&i, "X") == 5.0 && strvar_is(&i, "S$", "OLD"), "c16 typed: a refused write changes nothing");
    assert!(var_is_number(&i, "X") && !var_is_number(&i, "S$"), "c16: stored kinds follow the name suffix");
    {keep_check}
    kani::cover!(true, "reached_end");
""", unwind=16)

c16_typed("c16_typed_let_string_to_numeric", 'X = "A"', "X", "E_TYPE", "", "a string cannot be assigned to a numeric name")
c16_typed("c16_typed_let_number_to_string", 'S$ = 1', "S$", "E_TYPE", "", "a number cannot be assigned to a $ name")
c16_typed("c16_typed_for_string_var", 'FOR S$ = 1 TO 2', "S$", "E_TYPE", 'assert!(pa::loop_len(&i.program) <= 1);', "FOR cannot use a $ variable")
c16_typed("c16_typed_array_cell", 'A(1) = "A"', "A", "E_TYPE", 'assert!(cell(&mut i, "A", 1) == 0.0 || true);', "a string cannot be stored in a numeric array cell", tier="thorough")

# ------------------------------------------------------------------------------------------------
# C17
# ------------------------------------------------------------------------------------------------
def c17(name, setup, text, checks, what, numbered=True, tier="quick"):
    S(name, ["C17"], tier,
      "enabling tracing / warnings changes nothing but the Trace / Warning records: %s" % what,
      "two interpreters, flags (t,w) any booleans vs (false,false); same pre-state; statement: %s" % text,
      f"""
    let t: bool = kani::any(); let w: bool = kani::any();
    let mut a = Interpreter::default();
    let mut i = Interpreter::default();
    i.enable_tracing = t; i.enable_warnings = w;
    {L(10, text, "a")}
    {L(10, text)}
    {L(20, "END", "a")}
    {L(20, "END")}
    a.program.run_from_first_numbered_line();
    i.program.run_from_first_numbered_line();
{setup}
    resume_at(&mut a, 10, 0);
    resume_at(&mut i, 10, 0);
    let ea = stmt(&mut a);
    let ei = stmt(&mut i);
    assert!(ea == ei, "c17: same outcome with and without tracing/warnings");
    assert!(st(&a) == st(&i) && pa::location(&a.program) == pa::location(&i.program), "c17: same state and location");
    assert!(pa::loop_len(&a.program) == pa::loop_len(&i.program) && pa::stack_len(&a.program) == pa::stack_len(&i.program));
    assert!(count_kind(&a, O_PRINT) == count_kind(&i, O_PRINT), "c17: same printed output records");
    assert!(count_kind(&a, O_TRACE) == 0 && count_kind(&a, O_WARNING) == 0, "c17: no records when both are off");
    assert!(count_kind(&i, O_TRACE) == if t {{ 1 }} else {{ 0 }}, "c17: exactly one trace record per statement of a numbered line iff tracing");
    if t {{ assert!(trace_line(&i, 0) == 10, "c17: the trace record names the executing line"); }}
{checks}
    kani::cover!(t && w, "reached_both_on");
    core::mem::forget(a);
""", unwind=16, timeout=1200, mem=8000, cost=150)

c17("c17_read_assigned_variable", '    set_num(&mut a, "Y", 3.0); set_num(&mut i, "Y", 3.0);', "X = Y + 1", """
    assert!(num(&a, "X") == 4.0 && num(&i, "X") == 4.0);
    assert!(count_kind(&i, O_WARNING) == 0, "c17: no warning for an assigned variable");
""", "reading an assigned variable")
c17("c17_array_read_absent", "", "X = A(1)", """
    assert!(has_array(&a, "A") && has_array(&i, "A"), "c17: the array is created either way");
    assert!(num(&a, "X") == num(&i, "X"));
    assert!(count_kind(&i, O_WARNING) == if w { 1 } else { 0 }, "c17: a warning exactly when an absent array is touched and warnings are on");
""", "touching an array that does not exist yet (read)", tier="thorough")
c17("c17_array_write_absent", "", "A(1) = 2", """
    assert!(has_array(&a, "A") && has_array(&i, "A"));
    assert!(cell(&mut a, "A", 1) == 2.0 && cell(&mut i, "A", 1) == 2.0);
    assert!(count_kind(&i, O_WARNING) == if w { 1 } else { 0 }, "c17: a warning exactly when an absent array is written and warnings are on");
""", "touching an array that does not exist yet (write)", tier="thorough")
c17("c17_for_statement", "", "FOR I = 1 TO 3", """
    assert!(num(&a, "I") == num(&i, "I"));
    assert!(count_kind(&i, O_WARNING) == 0);
""", "FOR")

def c17_single(name, text, checks, what):
    # the four (tracing, warnings) configurations are structure: one harness each, concrete flags
    for (t, w) in ((False, False), (True, False), (False, True), (True, True)):
        S("%s_t%d_w%d" % (name.replace("_any_flags", ""), int(t), int(w)), ["C17"], "quick",
          "the outcome of the statement is the same in each of the four (tracing, warnings) configurations (expected values do not depend on the flags): %s" % what,
          "tracing=%s warnings=%s; statement: %s" % (t, w, text),
          f"""
    let t: bool = {str(t).lower()}; let w: bool = {str(w).lower()};
    let mut i = Interpreter::default();
    i.enable_tracing = t; i.enable_warnings = w;
    {L(10, text)}
    {L(20, "END")}
    i.program.run_from_first_numbered_line();
    resume_at(&mut i, 10, 0);
    let e = stmt(&mut i);
    assert!(count_kind(&i, O_TRACE) == if t {{ 1 }} else {{ 0 }}, "c17: one trace record iff tracing");
    if t {{ assert!(trace_line(&i, 0) == 10, "c17: the trace record names the executing line"); }}
    assert!(count_kind(&i, O_PRINT) == 0);
{checks}
    kani::cover!(true, "reached_end");
""", unwind=16, timeout=600, mem=5000, cost=40)

c17_single("c17_read_unassigned_variable_any_flags", "X = Y + 1", """
    assert!(e.is_none() && num(&i, "X") == 1.0 && !has_var(&i, "Y"), "c17: an unassigned variable reads as 0 whatever the flags, and is not created");
    assert!(count_kind(&i, O_WARNING) == if w { 1 } else { 0 }, "c17: a warning exactly when an unassigned variable is read and warnings are on");
""", "reading a never-assigned variable")
def c17_expr(name, text, checks, what):
    # array access at statement level exhausts memory even for concrete programs (measured: > 5 GB);
    # the read path is the expression evaluator's, which is entered directly here
    for (t, w) in ((False, False), (True, True), (False, True)):
        S("%s_t%d_w%d" % (name, int(t), int(w)), ["C17"], "thorough",
          "the outcome of evaluating the expression is the same in the (tracing, warnings) configurations: %s" % what,
          "tracing=%s warnings=%s; expression on numbered line 10: %s" % (t, w, text),
          f"""
    let w: bool = {str(w).lower()};
    let mut i = Interpreter::default();
    i.enable_tracing = {str(t).lower()}; i.enable_warnings = w;
    {L(10, text)}
    i.program.run_from_first_numbered_line();
    resume_at(&mut i, 10, 0);
    let r = i.evaluate_expression();
    assert!(count_kind(&i, O_TRACE) == 0 && count_kind(&i, O_PRINT) == 0, "c17: evaluating an expression emits no trace / print records");
{checks}
    core::mem::forget(r);
    kani::cover!(true, "reached_end");
""", unwind=16, timeout=2400, mem=20000, cost=900)

c17_expr("c17_array_read_absent", "A(1)", """
    assert!(matches!(&r, Ok(Value::Number(v)) if *v == 0.0), "c17: a cell of an absent array reads 0 whatever the flags");
    assert!(has_array(&i, "A"), "c17: the array is created whatever the flags");
    assert!(count_kind(&i, O_WARNING) == if w { 1 } else { 0 }, "c17: a warning exactly when an absent array is touched and warnings are on");
""", "reading an array that does not exist yet")
c17_expr("c17_array_read_out_of_range", "A(11)", """
    assert!(matches!(&r, Err(e) if err_code(&e.error) == E_SUBSCRIPT), "c17: an out-of-range read of an absent array is BAD SUBSCRIPT whatever the flags");
    assert!(has_array(&i, "A"), "c17: the array is created before the subscript is checked, whatever the flags");
""", "out-of-range read of an array that does not exist yet")

S("c17_no_trace_for_immediate_lines", ["C17"], "quick",
  "trace records are emitted for numbered lines only",
  "tracing on; immediate X = 1",
  f"""
    let mut i = Interpreter::default();
    i.enable_tracing = true;
    assert!({IMM("X = 1")}.is_none());
    assert!(count_kind(&i, O_TRACE) == 0, "c17: no trace record for an immediate line");
    kani::cover!(true, "reached_end");
""")

S("c17_trace_commands", ["C17"], "quick",
  "TRACE / NOTRACE set exactly the tracing flag (real text-level commands)",
  "TRACE then NOTRACE",
  f"""
    let w: bool = kani::any();
    let mut i = Interpreter::default();
    i.enable_warnings = w;
    set_num(&mut i, "X", 5.0);
    assert!(cmd(&mut i, "TRACE").is_none());
    assert!(i.enable_tracing && i.enable_warnings == w && st(&i) == ST_IDLE && num(&i, "X") == 5.0 && out_len(&i) == 0, "c17: TRACE only sets the flag");
    assert!(cmd(&mut i, "NOTRACE").is_none());
    assert!(!i.enable_tracing && i.enable_warnings == w && st(&i) == ST_IDLE && num(&i, "X") == 5.0, "c17: NOTRACE only clears the flag");
    kani::cover!(true, "reached_end");
""", unwind=16, timeout=1500, mem=8000, cost=250)

# ------------------------------------------------------------------------------------------------
# C01 / C18 (session level)
# ------------------------------------------------------------------------------------------------
S("c01_error_rendering", ["C01"], "quick",
  "an error delivered by a turn carries a location and can be rendered as source line + caret without panicking; afterwards idle and a new line is accepted",
  "10 X = 1 : NEXT Q (fails) ; render; then immediate Y = 2",
  f"""
    let mut i = Interpreter::default();
    {L(10, "X = 1 : NEXT Q")}
    assert!(run_tok(&mut i).is_none());
    assert!(turn(&mut i).is_none());
    assert!(turn_render(&mut i) == Some(E_NEXT), "c01: the failure is delivered as an error value");
    assert!(st(&i) == ST_IDLE, "c01: idle after an error");
    assert!({IMM("Y = 2")}.is_none() && num(&i, "Y") == 2.0, "c01: a further line is accepted");
    kani::cover!(true, "reached_end");
""", unwind=16)

S("c01_new_command_state", ["C01", "C19"], "quick",
  "NEW requests a new interpreter (the only way to reach that state); protocol: the host replaces the interpreter",
  "cmd NEW",
  f"""
    let mut i = Interpreter::default();
    assert!(cmd(&mut i, "NEW").is_none());
    assert!(st(&i) == ST_NEW, "c01: NEW asks the host for a fresh interpreter");
    kani::cover!(true, "reached_end");
""", unwind=16, timeout=1500, mem=8000, cost=250)

S("c18_randomize_stores_seed", ["C18", "C01"], "quick",
  "randomize(seed) stores exactly the seed, for every u64",
  "randomize(seed), seed any u64",
  f"""
    let seed: u64 = kani::any();
    let mut i = Interpreter::default();
    i.randomize(seed);
    assert!(rng_seed(&i) == seed, "c18: randomize stores the seed unchanged");
    assert!(st(&i) == ST_IDLE);
    kani::cover!(seed == u64::MAX, "reached_max_seed");
""", unwind=8, timeout=300, mem=4000, cost=30)

S("c18_rnd_expression_positive", ["C18", "C01"], "thorough",
  "RND(1) evaluated by the real expression evaluator advances the interpreter's own generator exactly one step and yields its value (seed u64::MAX: the case that used to overflow)",
  "randomize(u64::MAX); expression RND(1)  (concrete seed: a witness that the builtin reaches the generator the unit harnesses decide for all seeds)",
  f"""
    let mut i = Interpreter::default();
    i.randomize(u64::MAX);
    let (state, value) = crate::random::verif_raccess::one_step_from(u64::MAX);
    i.program.set_and_goto_immediate_line({vec("RND(1)")});
    let r1 = i.evaluate_expression();
    assert!(matches!(&r1, Ok(Value::Number(v)) if *v == value), "c18: RND(1) yields the generator's next value");
    assert!(rng_seed(&i) == state, "c18: one RND(1) = one generator step");
    core::mem::forget(r1);
    kani::cover!(true, "reached_end");
""", unwind=16, timeout=900, mem=6000, cost=60)

S("c18_rnd_expression_zero", ["C18"], "quick",
  "RND(0) evaluated by the real expression evaluator returns the latest value without advancing",
  "generator at state s after one step from seed 7; expression RND(0)",
  f"""
    let mut i = Interpreter::default();
    let (state, value) = crate::random::verif_raccess::one_step_from(7);
    i.randomize(state);
    i.program.set_and_goto_immediate_line({vec("RND(0)")});
    let r0 = i.evaluate_expression();
    assert!(matches!(&r0, Ok(Value::Number(v)) if *v == value) && rng_seed(&i) == state, "c18: RND(0) repeats without advancing");
    core::mem::forget(r0);
    kani::cover!(true, "reached_end");
""", unwind=16, timeout=900, mem=6000, cost=60)

S("c18_rnd_expression_negative", ["C18", "C01"], "thorough",
  "RND(-1) is reported as an error value (UNIMPLEMENTED) without advancing the generator",
  "randomize(5); expression RND(-1)",
  f"""
    let mut i = Interpreter::default();
    i.randomize(5);
    i.program.set_and_goto_immediate_line({vec("RND(-1)")});
    let rn = i.evaluate_expression();
    assert!(matches!(&rn, Err(e) if err_code(&e.error) == E_UNIMPL) && rng_seed(&i) == 5, "c18: a negative argument is an error without advancing");
    core::mem::forget(rn);
    kani::cover!(true, "reached_end");
""", unwind=16, timeout=900, mem=6000, cost=60)
import re as _re
_ANY = _re.compile(r"(?:: (f64|u64|usize|i64|u32|u16|u8|bool) = kani::any\(\))|(any_small\(\))|(pick_str\(kani::any\(\)\))|(pick_num\(kani::any\(\)\))")
_SIZE = {"f64": 8, "u64": 8, "usize": 8, "i64": 8, "u32": 4, "u16": 2, "u8": 1, "bool": 1}


def any_sizes(body):
    """sizes of the kani::any() calls in textual (= execution) order, for the zero-valued fallback replay"""
    sizes = []
    for m in _ANY.finditer(body):
        sizes.append(_SIZE[m.group(1)] if m.group(1) else 1)
    return sizes


def emit(s):
    out = []
    out.append('// @verif prop=%s tier=%s timeout=%d arms=1 mem=%d cost=%d clause="%s"%s' % (
        ",".join(s["props"]), s["tier"], s["timeout"], s["mem"], s["cost"], s["clause"].replace('"', "'"),
        (" cbmc=--no-propagation" if os.environ.get("NOPROP") == "1" else "") + " anysizes=" + (",".join(str(x) for x in any_sizes(s["body"])) or "0")))
    out.append('// @verif sample="%s" bounds="%s"' % (s["sample"].replace('"', "'"), (s["bounds"] or "program and script as in the sample; unwind %d" % s["unwind"]).replace('"', "'")))
    out.append("#[kani::proof]")
    out.append("#[kani::unwind(%d)]" % s["unwind"])
    out.append(STUBS.rstrip())
    if s["parse_stub"]:
        out.append(STUB_PARSE.rstrip())
    out.append("fn %s() {" % s["name"])
    out.append(s["body"].rstrip())
    out.append("    core::mem::forget(i);")
    out.append("}\n")
    return "\n".join(out)


def generate(prop, tier, seed):
    text = HEADER
    n = 0
    for s in SCENARIOS:
        if prop not in s["props"]:
            continue
        if tier == "quick" and s["tier"] != "quick":
            continue
        text += "\n" + emit(s)
        n += 1
    if n == 0:
        return []
    return [("verif_session_gen", "abasic-core", "src/interpreter.rs", text)]


if __name__ == "__main__":
    for m in generate(sys.argv[1] if len(sys.argv) > 1 else "C03", sys.argv[2] if len(sys.argv) > 2 else "quick", 0):
        print(m[3])
