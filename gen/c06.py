"""C06: static checker vs interpreter, per statement shape (concrete tokens; all variable values symbolic)."""
import os
import sys

sys.path.insert(0, os.path.dirname(os.path.abspath(__file__)))
from _basic import vec  # noqa

PROPS = ["C06"]
NEEDS = ["verif_support", "verif_paccess", "verif_raccess", "verif_isupport"]

HEADER = """use super::*;
#[allow(unused_imports)]
use crate::interpreter::verif_isupport::*;
use crate::Interpreter;
use crate::program::Program;
use crate::value::Value;

/// verdict of the static checker for the statement at line 10 (None = accepted)
fn analyze(with_line_0: bool, toks: Vec<Token>) -> Option<u8> {
    let mut program = Program::default();
    if with_line_0 {
        program.set_numbered_line(0, vec![Token::End]);
    }
    program.set_numbered_line(10, toks);
    program.run_from_first_numbered_line();
    pa::set_location(&mut program, 10, 0);
    let mut acc = SymbolAccessMap::default();
    let mut code = None;
    // the analyzer's per-line loop (source_file_analyzer.rs): statements until the line is exhausted
    let mut guard = 0;
    while program.has_next_token() && guard < 4 {
        let r = StatementAnalyzer::new(&mut program, &mut acc).evaluate_statement();
        if let Err(e) = &r {
            code = Some(err_code(&e.error));
        }
        let failed = r.is_err();
        core::mem::forget(r);
        if failed {
            break;
        }
        guard += 1;
    }
    core::mem::forget(acc);
    core::mem::forget(program);
    code
}

/// outcome of executing the statement at line 10 from a fresh state with symbolic variable values
fn execute(with_line_0: bool, toks: Vec<Token>) -> Option<u8> {
    let mut i = Interpreter::default();
    if with_line_0 {
        line(&mut i, 0, vec![Token::End]);
    }
    line(&mut i, 10, toks);
    i.program.run_from_first_numbered_line();
    // variables the shapes read hold any value of their kind (an absent variable reads as 0 / "",
    // which the value sets contain; making presence itself symbolic merges two map shapes and was
    // measured to push a third of the arms past 6 GB)
    set_num(&mut i, "Y", any_small());
    set_num(&mut i, "Z", any_small());
    let r = i.variables.set(sym("S$"), Value::String(std::rc::Rc::new(String::from(pick_str(kani::any())))));
    kani::assume(r.is_ok());
    core::mem::forget(r);
    let r2 = i.variables.set(sym("T$"), Value::String(std::rc::Rc::new(String::from(pick_str(kani::any())))));
    kani::assume(r2.is_ok());
    core::mem::forget(r2);
    resume_at(&mut i, 10, 0);
    let e = stmt(&mut i);
    core::mem::forget(i);
    match e {
        None => None,
        Some((c, _)) => Some(c),
    }
}

/// array subscripts: the checker's and the interpreter's `evaluate_array_index` on the same tokens
/// (statements that touch arrays exhaust memory in symex; the subscript lists are where the two forks
/// can disagree about arrays)
fn analyze_index(toks: Vec<Token>) -> Option<u8> {
    let mut program = Program::default();
    program.set_numbered_line(10, toks);
    program.run_from_first_numbered_line();
    let mut acc = SymbolAccessMap::default();
    let r = ExpressionAnalyzer::new(&mut program, &mut acc).evaluate_array_index();
    let code = match &r {
        Ok(_) => None,
        Err(e) => Some(err_code(&e.error)),
    };
    core::mem::forget(r);
    core::mem::forget(acc);
    core::mem::forget(program);
    code
}

fn execute_index(toks: Vec<Token>) -> Option<u8> {
    let mut i = Interpreter::default();
    line(&mut i, 10, toks);
    i.program.run_from_first_numbered_line();
    set_num(&mut i, "Y", any_small());
    set_num(&mut i, "Z", any_small());
    let r = i.variables.set(sym("S$"), Value::String(std::rc::Rc::new(String::from(pick_str(kani::any())))));
    kani::assume(r.is_ok());
    core::mem::forget(r);
    let res = crate::expression::ExpressionEvaluator::new(&mut i).evaluate_array_index();
    let code = match &res {
        Ok(_) => None,
        Err(e) => Some(err_code(&e.error)),
    };
    core::mem::forget(res);
    core::mem::forget(i);
    code
}

fn is_static_kind(c: Option<u8>) -> bool {
    c == Some(E_SYNTAX) || c == Some(E_TYPE) || c == Some(E_UNDEF)
}
"""

STUBS = """#[kani::stub(std::backtrace::Backtrace::capture, crate::verif_support::stub_backtrace_capture)]
#[kani::stub(crate::string_manager::StringManager::gc, crate::verif_support::stub_gc)]
#[kani::stub(alloc::fmt::format, crate::verif_support::stub_format)]
#[kani::stub(<crate::symbol::Symbol as std::fmt::Display>::fmt, crate::verif_support::stub_symbol_display)]
#[kani::stub(<crate::tokenizer::Token as std::fmt::Display>::fmt, crate::interpreter::verif_isupport::stub_token_display)]
#[kani::stub(f64::powf, crate::verif_support::stub_powf)]
"""

OPERANDS = {"v": "Y", "w": "S$", "n": "2", "s": '"A"'}
OPERANDS2 = {"v": "Z", "w": "T$", "n": "3", "s": '"B"'}


def shapes(tier):
    out = []  # (label, text, straight_line, with_line_0)
    ops_quick = ["+", "=", "AND"]
    ops_all = ["+", "-", "*", "/", "^", "=", "<>", "<", "<=", ">", ">=", "AND", "OR"]
    for tgt in ("X", "X$"):
        for k in "vwns":
            out.append(("let %s leaf %s" % (tgt, k), "%s = %s" % (tgt, OPERANDS[k]), True, False, "quick"))
        for op in ops_all:
            for (a, b) in (("v", "v"), ("w", "w"), ("v", "w"), ("w", "n")):
                t = "quick" if (op in ops_quick and (a, b) != ("w", "n")) else "thorough"
                out.append(("let %s %s%s%s" % (tgt, a, op, b), "%s = %s %s %s" % (tgt, OPERANDS[a], op, OPERANDS2[b]), True, False, t))
        for u in ("NOT", "-"):
            for k in "vw":
                out.append(("let %s %s %s" % (tgt, u, k), "%s = %s %s" % (tgt, u, OPERANDS[k]), True, False, "quick"))
        # chained comparisons and logical results used as operands
        out.append(("let %s chain cmp num" % tgt, "%s = Y = Z = 1" % tgt, True, False, "quick"))
        out.append(("let %s chain cmp str" % tgt, "%s = S$ = T$ = 1" % tgt, True, False, "quick"))
        out.append(("let %s cmp plus" % tgt, "%s = (S$ = T$) + 1" % tgt, True, False, "quick"))
        out.append(("let %s and plus" % tgt, "%s = (S$ AND T$) + 1" % tgt, True, False, "thorough"))
        out.append(("let %s not plus" % tgt, "%s = NOT S$ + 1" % tgt, True, False, "thorough"))
        out.append(("let %s abs" % tgt, "%s = ABS(Y)" % tgt, True, False, "quick"))
        out.append(("let %s abs str" % tgt, "%s = INT(S$)" % tgt, True, False, "thorough"))
    for e, lab in (("Y", "num"), ("S$", "str"), ("Y + S$", "mixed"), ("S$ < T$", "strcmp"), ("Y ; S$ , 1", "list")):
        out.append(("print %s" % lab, "PRINT %s" % e, True, False, "quick" if lab in ("mixed", "strcmp") else "thorough"))
    out.append(("for num", "FOR I = Y TO Z", False, False, "quick"))
    out.append(("for strvar", "FOR I$ = 1 TO 2", False, False, "thorough"))
    out.append(("for str from", "FOR I = S$ TO 2", False, False, "thorough"))
    out.append(("for str step", "FOR I = 1 TO 2 STEP S$", False, False, "thorough"))
    out.append(("dim str subscript", "DIM A(S$)", True, False, "thorough"))
    out.append(("dim num subscript", "DIM A(Y)", True, False, "thorough"))
    out.append(("array cell str to num", 'A(1) = S$', True, False, "thorough"))
    out.append(("array read str subscript", 'X = A(S$)', True, False, "thorough"))
    out.append(("array cell str second subscript", 'A(1, S$) = 5', True, False, "thorough"))
    out.append(("array read str second subscript", 'X = A(1, S$)', True, False, "thorough"))
    out.append(("dim str second subscript", 'DIM A(2, S$)', True, False, "thorough"))
    out.append(("array read 3 subscripts str last", 'X = A(1, 2, S$)', True, False, "thorough"))
    out.append(("missing operand", "X = Y +", True, False, "thorough"))
    out.append(("missing equals", "X Y", True, False, "quick"))
    out.append(("stray token", ") = 1", True, False, "thorough"))
    out.append(("unbalanced paren", "X = (Y + 1", True, False, "quick"))
    out.append(("if missing then", "IF Y X = 1", False, False, "quick"))
    out.append(("if then ok", "IF Y THEN X = 1 ELSE X = 2", False, False, "quick"))
    out.append(("if then type error in else", 'IF Y THEN X = 1 ELSE X = "A"', False, False, "thorough"))
    out.append(("goto existing", "GOTO 0", False, True, "quick"))
    out.append(("goto missing", "GOTO 0", False, False, "quick"))
    out.append(("gosub missing", "GOSUB 0", False, False, "thorough"))
    out.append(("then line missing", "IF 1 THEN 0", False, False, "thorough"))
    out.append(("goto non literal", "GOTO Y", False, True, "quick"))
    return [s for s in out if tier == "thorough" or s[4] == "quick"]


def generate(prop, tier, seed):
    out = HEADER
    seen_names = set()
    for k, (label, text, straight, with0, t) in enumerate(shapes(tier)):
        OPN = {"+": "plus", "-": "minus", "*": "times", "/": "div", "^": "pow", "=": "eq", "<>": "ne", "<": "lt", "<=": "le", ">": "gt", ">=": "ge", "$": "s"}
        lab = label
        for sym_, nm in sorted(OPN.items(), key=lambda kv: -len(kv[0])):
            lab = lab.replace(sym_, " " + nm + " ")
        name = "c06_" + "_".join("".join(ch if ch.isalnum() else " " for ch in lab.lower()).split())
        assert name not in seen_names, name
        seen_names.add(name)
        w0 = "true" if with0 else "false"
        out += '\n// @verif prop=C06 tier=%s timeout=%d mem=%d cost=80 arms=1 clause="checker accepts => no SYNTAX/TYPE MISMATCH/UNDEF\'D STATEMENT for any variable values; checker rejects a straight-line statement => it fails when executed from a fresh state"\n' % (t, 900 if t == "quick" else 2400, 6000 if t == "quick" else 20000)
        out += '// @verif sample="10 %s ; variables Y,Z any of 9 numbers, S$,T$ any of 4 strings" bounds="one statement; variable values by symbolic selector"\n' % text.replace('"', "'")
        out += "#[kani::proof]\n#[kani::unwind(14)]\n" + STUBS
        out += "fn %s() {\n" % name
        out += "    let a = analyze(%s, %s);\n" % (w0, vec(text))
        out += "    let e = execute(%s, %s);\n" % (w0, vec(text))
        msg = "c06 [%s]" % text.replace('"', "'")
        out += '    assert!(a.is_some() || !is_static_kind(e), "%s: accepted by the checker but fails with a syntax / type / undefined-line error");\n' % msg
        if straight:
            out += '    assert!(a.is_none() || e.is_some(), "%s: rejected by the checker but executes without error");\n' % msg
        out += '    kani::cover!(true, "reached_end");\n}\n'
    for label, text in (("one num", "(Y)"), ("one str", "(S$)"), ("two nums", "(Y, Z)"), ("str second", "(1, S$)"), ("str first", "(S$, 1)"), ("str third", "(1, 2, S$)"), ("unclosed", "(1, 2"), ("expr", "(Y + 1, Z * 2)")):
        name = "c06_subscripts_" + "_".join(label.split())
        out += '\n// @verif prop=C06 tier=quick timeout=900 mem=6000 cost=60 arms=1 clause="array subscript lists: the checker accepts => the interpreter raises no SYNTAX / TYPE MISMATCH for any values; the checker rejects => the interpreter fails too"\n'
        out += '// @verif sample="subscript list %s ; Y,Z any of 9 numbers, S$ any of 4 strings" bounds="one subscript list"\n' % text
        out += "#[kani::proof]\n#[kani::unwind(14)]\n" + STUBS
        out += "fn %s() {\n" % name
        out += "    let a = analyze_index(%s);\n    let e = execute_index(%s);\n" % (vec(text), vec(text))
        out += '    assert!(a.is_some() || !is_static_kind(e), "c06 [subscripts %s]: accepted by the checker but fails with a syntax / type error");\n' % text
        out += '    assert!(a.is_none() || e.is_some(), "c06 [subscripts %s]: rejected by the checker but evaluates without error");\n' % text
        out += '    kani::cover!(true, "reached_end");\n}\n'
    return [("verif_c06_gen", "abasic-core", "src/analyzer/statement_analyzer.rs", out)]


if __name__ == "__main__":
    m = generate("C06", sys.argv[1] if len(sys.argv) > 1 else "quick", 0)
    print(m[0][3].count("#[kani::proof]"), "harnesses")
