#!/bin/bash
# confirm_seeded.sh <ID> <worktree> <outdir>: confirm a seeded change: existing tests pass with it,
# the demonstration fails with it and passes without it. Copies the result into /verif/seeded/<name>/.
id=$1; wt=$2; out=$3; name=${4:-$id-1}
unset RUST_BACKTRACE
cd $wt || exit 1
demo=$(git status --porcelain | grep '^??' | awk '{print $2}' | grep -E "\.rs$" | head -1)
echo "== $id demo=$demo"
git diff > /tmp/confirm-$id.patch
with_tests=$(cargo test --workspace --no-fail-fast --offline 2>&1 | grep -E "^test result" | awk '{p+=$4; f+=$6} END {print p" passed "f" failed"}')
git stash -q
without_tests=$(cargo test --workspace --no-fail-fast --offline 2>&1 | grep -E "^test result" | awk '{p+=$4; f+=$6} END {print p" passed "f" failed"}')
git stash pop -q
echo "with patch (incl. demo): $with_tests ; without patch (incl. demo): $without_tests"
mkdir -p /verif/seeded/$name
cp /tmp/confirm-$id.patch /verif/seeded/$name/patch.diff
cp $out/demo_test.rs /verif/seeded/$name/demo_test.rs 2>/dev/null || cp $wt/$demo /verif/seeded/$name/demo_test.rs
cp $out/meta.json /verif/seeded/$name/agent_meta.json 2>/dev/null
echo "{\"with_patch\": \"$with_tests\", \"without_patch\": \"$without_tests\", \"demo_file\": \"$demo\"}" > /verif/seeded/$name/confirm.json
