#!/bin/bash
# run_seeded.sh [name ...]: for each seeded change under /verif/seeded/<name>/ (patch.diff + meta.json
# with "property"), apply it to a scratch worktree of /repo's HEAD, run the owning check against that
# worktree (VERIF_REPO) and record whether it was caught (exit 1 + VIOLATION).  /repo is never touched.
cd /verif
names="$@"; [ -z "$names" ] && names=$(ls seeded | grep -v RESULTS)
mkdir -p seeded/.runs
for n in $names; do
  d=seeded/$n; [ -f $d/patch.diff ] || continue
  prop=$(python3 -c "import json;print(json.load(open('$d/meta.json'))['property'])")
  wt=/tmp/seed-wt-$n; rm -rf $wt; git -C /repo worktree prune; git -C /repo worktree add -q --detach $wt HEAD || continue
  if ! git -C $wt apply $PWD/$d/patch.diff 2>/tmp/seed-apply-$n.err; then echo "$n $prop PATCH-DOES-NOT-APPLY"; git -C /repo worktree remove --force $wt; continue; fi
  VERIF_REPO=$wt VERIF_KEEP_LOGS=0 ./check $prop --no-evidence --lanes ${LANES:-8} > seeded/.runs/$n.log 2>&1; rc=$?
  v=$(grep -c "^VIOLATION" seeded/.runs/$n.log); inc=$(grep -c "^INCONCLUSIVE" seeded/.runs/$n.log)
  echo "$n $prop exit=$rc violations=$v inconclusive=$inc $(grep '^VIOLATION' seeded/.runs/$n.log | head -2 | sed 's/.*replay=//' | xargs -n1 basename 2>/dev/null | tr '\n' ' ')"
  git -C /repo worktree remove --force $wt
done
