#!/bin/bash
# Runs the repository's own test suite (guard off; no hooks exist) and prints a summary.
# Expected: 151 passed, 2 failed (the two always-failing analyzer tests listed in BASELINE.json).
cd "${1:-/repo}" && cargo test --workspace --no-fail-fast --offline 2>&1 | grep -E "^test result:|^test .* FAILED$" 
