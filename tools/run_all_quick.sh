#!/bin/bash
# runs every claimed property's quick command in sequence (as `vp check` does) and prints one line each
cd /verif
for p in ${@:-$(python3 -c "import json;print(' '.join(c['property_id'] for c in json.load(open('MANIFEST.json'))['checks']))")}; do
  t0=$(date +%s); ./check $p --tier quick > logs/quick-$p.out 2>&1; rc=$?; t1=$(date +%s)
  echo "$p exit=$rc wall=$((t1-t0))s $(grep -E '^\[.*tier=' logs/quick-$p.out | tail -1)"
done
