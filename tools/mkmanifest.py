#!/usr/bin/env python3
"""Regenerates /verif/MANIFEST.json from the table below (keeps it schema-valid at all times)."""
import json
import os

VERIF = os.path.dirname(os.path.dirname(os.path.abspath(__file__)))

TECH = "bounded symbolic execution of the real Rust source (Kani 0.68 -> CBMC 6.11 -> CaDiCaL), symbolic data under generator-enumerated structure, unwinding assertions on, counterexamples replayed natively"

CLAIMED = {
    # id: (level text, level_note, design_ref)
    "C04": ("Every history of <=3 line entries over ANY u64 line numbers (symbolic) is decided against a last-writer-wins reference map: membership, payload, first/after (incl. u64::MAX), two-index agreement; LIST order on 54 concrete-key histories. Bounded model checking: nothing beyond 3 entries / 1-token payloads is claimed.",
            "std HashMap/BTreeSet replaced by the Vec-backed contract model (validated natively by the repo's tests); text entry and LIST text formatting outside.", "5/C04"),
    "C16": ("DimArray::new decided for every 1-3 tuple of usize maxima (thorough: 4) against an exact u128 product and the 10000 cap; addressing bijection on symbolic arrays.",
            "Kani/CBMC bit-precise semantics of the compiled MIR; bounds stated per harness in the evidence.", "5/C16"),
    "C18": ("LCG step, scaling and sign dispatch decided for ALL 2^64 seeds / all 2^33 states / all non-NaN arguments against a u128 reference built from the constants in the property text; sequences follow by induction on the state (paper argument).",
            "Bit-precise SAT encoding of u64/f64 operations by CBMC; NaN argument excluded (unspecified by the property).", "5/C18"),
}

NOT_APPLICABLE = {}

ALL = ["C%02d" % i for i in range(1, 21)]

PENDING_REASON = "not yet built in this revision of /verif (planned: see DESIGN.md section 5); no claim is made"


def main():
    checks = []
    for pid in ALL:
        if pid not in CLAIMED:
            continue
        text, note, ref = CLAIMED[pid]
        checks.append({
            "property_id": pid,
            "quick_cmd": "./check %s --tier quick" % pid,
            "thorough_cmd": "./check %s --tier thorough" % pid,
            "evidence_file": "/verif/evidence/%s.json" % pid,
            "replay_cmd_template": "./check %s --replay {path}" % pid,
            "engine": "kani-cbmc",
            "level_claimed": {"category": "model_checking", "text": text, "design_ref": "DESIGN.md section " + ref},
            "level_note": note,
            "technique": TECH,
        })
    na = []
    for pid in ALL:
        if pid in CLAIMED:
            continue
        na.append({"property_id": pid, "reason": NOT_APPLICABLE.get(pid, PENDING_REASON)})
    manifest = {
        "version": 1,
        "setup_cmd": "./tools/setup.sh",
        "hooks": {
            "guard": "none: no hooks are committed to /repo; harnesses are attached under cfg(kani) in a scratch overlay copy regenerated from /repo's working tree on every run",
            "enable": "overlay build by vf/overlay.py (copies /repo crates to a temp dir, appends `#[cfg(kani)] mod verif_*;` lines, redirects std::collections imports to the contract model)",
            "baseline_off_cmd": "cd /repo && cargo test --workspace --no-fail-fast --offline",
            "source_commits": [],
            "add_only": True,
        },
        "engines": [
            {"name": "kani-cbmc", "path": "/verif/vf", "serves_properties": sorted(CLAIMED.keys()),
             "kind_free_text": "Kani 0.68.0 (rustc MIR -> goto-program), CBMC 6.11.0 symbolic execution with unwinding assertions, CaDiCaL SAT; harnesses in /verif/harness and /verif/gen"},
        ],
        "checks": checks,
        "not_applicable": na,
        "notes": "Exit codes of ./check: 0 held (KNOWN-FINDING lines allowed), 1 reproduced violation (VIOLATION line), 2 inconclusive (timeout / memory cap / harness no longer compiles / vacuity). fix: commits in /repo are listed in known_findings.json under 'fixed'.",
    }
    with open(os.path.join(VERIF, "MANIFEST.json"), "w") as f:
        json.dump(manifest, f, indent=1)
    print("MANIFEST.json: %d checks, %d not_applicable" % (len(checks), len(na)))


if __name__ == "__main__":
    main()
