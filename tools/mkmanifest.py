#!/usr/bin/env python3
"""Regenerates /verif/MANIFEST.json from the table below (keeps it schema-valid at all times)."""
import json
import os

VERIF = os.path.dirname(os.path.dirname(os.path.abspath(__file__)))

TECH = "bounded symbolic execution of the real Rust source (Kani 0.68 -> CBMC 6.11 -> CaDiCaL), symbolic data under generator-enumerated structure, unwinding assertions on, counterexamples replayed natively"

CLAIMED = {
    # id: (level text, level_note, design_ref)
    "C01": ("Panic-freedom and error-as-value obligations decided per mechanism: every arithmetic kernel the property names for ALL values (usize array maxima, u64 line numbers and seeds, f64 subscripts, 21-digit numerals), plus scenario steps showing that a failing statement yields an error value with a location, leaves the interpreter idle, renders without panic and accepts a further line. Bounded: histories <= 4 turns, units instead of whole-line text, native stack depth not decided.",
            "Aggregates harnesses of C03/C04/C16/C18 tagged C01; container model, fmt/backtrace/gc stubs as listed in the evidence.", "9.3/C01"),
    "C02": ("Every expression arm (tree shape x operator assignment x leaf kinds, one Kani harness each) evaluated by the real ExpressionEvaluator equals an independent reference fold (value bit-exact or error kind), for all leaf values chosen by the solver from small sets incl. NaN/inf/-0 and 4 strings. Quick: all 13 operators x 4 operand-kind combinations, all 36 precedence-tier pairs without parentheses, unary/ABS/INT/parenthesis arms, seeded extra pairs; thorough: all 169 pairs in both groupings, full parenthesisation, typed mixes, sampled triples.",
            "powf replaced by a marker function on both sides; leaf values from a stated finite set (symbolic selector), not all doubles (FP mul/div equivalence does not finish otherwise).", "9.3/C02"),
    "C03": ("Reference step semantics decided per mechanism from constructed pre-states with symbolic data (FOR/NEXT for all non-NaN from/to/step, IF truthiness for all doubles, subscript conversion for all doubles, DATA order, GOSUB/RETURN, DEF FN scoping, sequencing at the u64 extremes, error kind and line). Not whole-program differential execution: one data-dependent statement per harness.",
            "Jump targets restricted to line 0 (CBMC constant-cast folding bug, DESIGN 9.2); stmt() recombines postprocess_result's steps.", "9.3/C03"),
    "C04": ("Every history of <=3 line entries over ANY u64 line numbers (symbolic) is decided against a last-writer-wins reference map: membership, payload, first/after (incl. u64::MAX), two-index agreement; LIST order on 54 concrete-key histories; numeral prefix parsing for any 8 ASCII bytes and for 20-digit numerals (u64::MAX exact, overflow -> none).",
            "std HashMap/BTreeSet replaced by the Vec-backed contract model (validated natively by the repo's tests); LIST text formatting and failed-edit ordering outside (the latter by code structure).", "9.3/C04"),
    "C05": ("The real SourceFileAnalyzer is symbolically executed on concrete files covering the shapes the property names (redefinition by an empty / untokenizable line, unnumbered, blank, CR, multi-byte illegal character, type and tokenization errors) with the mapping invariants asserted on every diagnostic; error-range arithmetic for all positions. Concrete texts: this is a witness-level check, not a claim over all files.",
            "No symbolic text (tokenizer + analyzer on symbolic bytes is out of reach); fmt/backtrace/gc stubs.", "9.3/C05"),
    "C06": ("Per statement shape (57 quick / 159 thorough, one harness each): the real StatementAnalyzer verdict vs. the real StatementEvaluator outcome for ALL variable values (present with any value of a small set, or absent): accepted => no SYNTAX/TYPE MISMATCH/UNDEF'D STATEMENT; rejected straight-line => fails.",
            "Single statements; jump targets line 0; values from stated finite sets.", "9.3/C06"),
    "C07": ("Break/CONT round trip from a symbolic cursor position with frames, loops, function table and data cursor present; inspecting, failing and assigning immediate statements at a breakpoint; STOP; a failing user-function call pops its frame. One-step unit claims (the induction to whole runs is a paper argument).",
            "Pre-states constructed directly; not A/B runs of whole programs.", "9.3/C07"),
    "C08": ("INPUT suspension point and resumption decided per reply class (d / x / empty / d,e / d:e / \"x\") and target kind with symbolic digits and letters: stored value, EXTRA IGNORED, REENTER, cursor positions, nothing else executed; array target; THEN/ELSE placement (known finding D5).",
            "Reply parser replaced by a class-driven model in these scenarios (natively the real parser runs on the same text; the parser itself is decided on class strings by gen/data_arms.py).", "9.3/C08"),
    "C09": ("One statement per host call shown on multi-statement lines with marker effects and trace-record counts, IF counted with its selected statement, a non-terminating program returning every turn; per-call work bounded by line length via Kani's unwinding assertions (unwind 16 on lines <= 11 tokens).",
            "Lines longer than the bound and user-function bodies outside.", "9.3/C09"),
    "C10": ("The real text-level RUN from a constructed dirty state (variables, arrays, 2 frames, loop, function, advanced data cursor, breakpoint, pending reply, any seed) leaves every piece of runtime state reset and the seed untouched; first statements then behave as in a fresh interpreter.",
            "One-step claim from a representative dirty state; sizes <= 2.", "9.3/C10"),
    "C11": ("From the same dirty suspended state, each kind of successful edit (add / replace / delete / replace the DATA line) drops breakpoint, frames, loops, functions and data cursor; CONT / RETURN / NEXT / READ probes give the documented errors / first item; variables and arrays kept; jumping to a deleted line is an error, not a panic.",
            "Rejected edits: by code structure (tokenization precedes the store).", "9.3/C11"),
    "C12": ("Matcher units on 6 fully symbolic ASCII bytes with symbolic start: line cruncher exactness; keyword matcher verdict and advance as a function of the crunched upper-cased bytes for all 26 keywords; one/two-character operators; leading-blank chomp; string-literal matcher; DATA item parser on all class strings of length <= 3 (4 thorough) under blank insertion, and its contract (never empty, in bounds) on all class strings incl. unbalanced quotes.",
            "Whole-line composition is a paper argument; chomp_symbol not covered, chomp_number only in the thorough tier (memory); item letters in the DATA class strings are concrete.", "9.3/C12"),
    "C13": ("Same units with range assertions (cursor right after the last consumed byte, never on a blank, within the line; failed match consumes nothing) and tokenization-error range arithmetic for all positions.",
            "Re-tokenization oracle and multi-byte text not covered.", "9.3/C13"),
    "C16": ("DimArray::new decided for every 1-3 tuple of usize maxima (thorough: 4) against an exact u128 product and the 10000 cap; addressing bijection on symbolic arrays; frame cap at 31/32 (GOSUB and FN call), loop cap at 32 with re-entry, pairwise-distinct loop variables; typed writes refused without side effects.",
            "\"Every write path\" closed by reading, not by the solver.", "9.3/C16"),
    "C17": ("2-safety step: two interpreters in the same state, flags (tracing, warnings) symbolic in one and off in the other, same statement: identical outcome, state, location and Print records; trace record iff tracing and numbered line, naming the line; warning iff warnings and the variable/array is absent; TRACE/NOTRACE set exactly the flag.",
            "One statement per harness; whole-run transparency by induction (paper).", "9.3/C17"),
    "C18": ("LCG step, scaling and sign dispatch decided for ALL 2^64 seeds / all 2^33 states / all non-NaN arguments against a u128 reference built from the constants in the property text; randomize stores any seed; RND(e) in a statement reaches the generator.",
            "Bit-precise SAT encoding of u64/f64 operations by CBMC; NaN argument excluded (unspecified by the property).", "9.3/C18"),
    "C19": ("The real abasic-web adapter driven by a Rust transliteration of main.ts's loader / submit / break / state handler, with the core replaced by a nondeterministic contract (any state the documented post-conditions allow; which calls fail is enumerated as masks): no adapter assertion or panic arm reachable, error latch cleared, NEW swaps in a fresh interpreter, output type mapping exhaustive. Counterexamples are replayed natively through realiser texts on the un-stubbed core.",
            "The contract is trusted (its clauses are what C01/C07/C08 check on the real core); events <= 1 quick / 2 thorough, loader <= 2 lines.", "9.3/C19"),
}

NOT_APPLICABLE = {
    "C14": "LIST is built from std formatting: Token's Display impl (write!/Formatter machinery) and the DATA renderer (f64::to_string, format!) are out of reach for CBMC here -- the spelling round trip of even 5 payload-free tokens through the real Display and tokenizer exceeded 8 GB (kept as thorough-tier harnesses c14_spelling_*, not claimed). What can be decided of the reload path -- the DATA item parser's insensitivity to blanks at item boundaries and the tokenizer's matcher units -- is claimed under C12/C13; that is not enough to claim the fixed-point property itself. The DATA defect D11 that C14 names was found and fixed under C12.",
    "C15": "Process-level property (stdout/stderr of `abasic FILE` vs a piped session, clap/rustyline/ctrlc, the options -w/-t/--skip-check): I/O, FFI and argument parsing cannot be encoded for CBMC within reach; only the core clause (analyzer-loaded program == typed-in program) is exercised, by an unclaimed side harness (c15_load_equals_typing, concrete text; run with ./check C15) that does not decide C15. The known CLI defect (file mode drops -w/-t) was found by reading, not by a check.",
    "C20": "Language-server liveness over JSON-RPC/stdio with threads is process-level behaviour Kani does not handle. The position clause was attempted on the real get_semantic_tokens / analyze_source_file (harness/lsp/c20_positions.rs, concrete documents): from the abasic-lsp crate the core's private formatting impls cannot be stubbed, and the first document exceeded 12 GB, so no verdict is available and nothing is claimed. The analyzer crash the server depends on is covered (and fixed) under C05; the UTF-16 column defect (byte offsets used as columns) is known by reading only.",
}

ALL = ["C%02d" % i for i in range(1, 21)]

PENDING_REASON = "not claimed"


def main():
    checks = []
    for pid in ALL:
        if pid not in CLAIMED:
            continue
        text, note, ref = CLAIMED[pid]
        checks.append({
            "property_id": pid,
            "quick_cmd": "./check %s --tier quick" % pid,
            "thorough_cmd": "./check %s --tier thorough" % pid,
            "evidence_file": "/verif/evidence/%s.json" % pid,
            "replay_cmd_template": "./check %s --replay {path}" % pid,
            "engine": "kani-cbmc",
            "level_claimed": {"category": "model_checking", "text": text, "design_ref": "DESIGN.md section " + ref},
            "level_note": note,
            "technique": TECH,
        })
    na = []
    for pid in ALL:
        if pid in CLAIMED:
            continue
        na.append({"property_id": pid, "reason": NOT_APPLICABLE.get(pid, PENDING_REASON)})
    manifest = {
        "version": 1,
        "setup_cmd": "./tools/setup.sh",
        "hooks": {
            "guard": "none: no hooks are committed to /repo; harnesses are attached under cfg(kani) in a scratch overlay copy regenerated from /repo's working tree on every run",
            "enable": "overlay build by vf/overlay.py (copies /repo crates to a temp dir, appends `#[cfg(kani)] mod verif_*;` lines, redirects std::collections imports to the contract model)",
            "baseline_off_cmd": "cd /repo && cargo test --workspace --no-fail-fast --offline",
            "source_commits": [],
            "add_only": True,
        },
        "engines": [
            {"name": "kani-cbmc", "path": "/verif/vf", "serves_properties": sorted(CLAIMED.keys()),
             "kind_free_text": "Kani 0.68.0 (rustc MIR -> goto-program), CBMC 6.11.0 symbolic execution with unwinding assertions, CaDiCaL SAT; harnesses in /verif/harness and /verif/gen"},
        ],
        "checks": checks,
        "not_applicable": na,
        "notes": "Exit codes of ./check: 0 held (KNOWN-FINDING lines allowed), 1 reproduced violation (VIOLATION line), 2 inconclusive (timeout / memory cap / harness no longer compiles / vacuity). fix: commits in /repo are listed in known_findings.json under 'fixed'.",
    }
    with open(os.path.join(VERIF, "MANIFEST.json"), "w") as f:
        json.dump(manifest, f, indent=1)
    print("MANIFEST.json: %d checks, %d not_applicable" % (len(checks), len(na)))


if __name__ == "__main__":
    main()
