#!/usr/bin/env python3-vt
import json, jsonschema, glob, sys
s=json.load(open('/root/.vp/EVIDENCE.schema.json'))
for f in sorted(glob.glob('/verif/evidence/*.json')):
    e=json.load(open(f)); jsonschema.validate(e,s)
    print(f.split('/')[-1],'ok tier=%s eval=%d nontrivial=%d wall=%ss viol=%s'%(e['tier'],e['coverage']['evaluations'],e['coverage']['distinct_nontrivial'],e['wall_s'],e.get('violations')))
m=json.load(open('/verif/MANIFEST.json'))
jsonschema.validate(m,json.load(open('/root/.vp/MANIFEST.schema.json')))
print('manifest ok: claimed', [c['property_id'] for c in m['checks']])
