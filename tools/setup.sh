#!/bin/bash
# Run once after a fresh restore, offline.  Nothing is compiled ahead of time (every check
# rebuilds its overlay from /repo's working tree); this validates the environment model for the
# std containers by running the repository's own tests natively against it (DESIGN.md 2.2).
set -e
cd "$(dirname "$(readlink -f "$0")")/.."
export CARGO_NET_OFFLINE=true
mkdir -p evidence replays logs
python3 vf/validate_model.py
