#!/usr/bin/env python3
"""check <ID> [--tier quick|thorough] [--replay <path>] [--only <regex>] [--keep]

Builds the overlay from /repo's current working tree, runs the property's Kani
harnesses (CBMC + CaDiCaL decide), replays counterexamples natively, writes
evidence/<ID>.json.  Exit 0 = held on everything explored (known findings are
printed as KNOWN-FINDING lines); 1 = reproduced violation not listed in
known_findings.json; 2 = inconclusive.
"""
import argparse
import concurrent.futures
import hashlib
import importlib.util
import json
import os
import re
import sys
import time

HERE = os.path.dirname(os.path.abspath(__file__))
VERIF = os.path.dirname(HERE)
sys.path.insert(0, HERE)
import overlay  # noqa: E402
import kani  # noqa: E402

ANCHOR_RE = re.compile(r"^//\s*@anchor\s+(.*)$", re.M)
VERIF_RE = re.compile(r"^\s*//\s*@verif\s+(.*)$")
FN_RE = re.compile(r"^\s*(?:(?:pub\s+)?fn\s+([A-Za-z0-9_]+)\s*\(|[a-z_]+_harness!\(\s*([A-Za-z0-9_]+)\s*,)")
UNWIND_RE = re.compile(r"#\[kani::unwind\((\d+)\)\]")
STUB_RE = re.compile(r"#\[kani::stub\(([^)]*)\)\]")
ASSUME_RE = re.compile(r"kani::assume\((.*)\);")


def parse_kv(s):
    out = {}
    for m in re.finditer(r'(\w+)=("([^"]*)"|\S+)', s):
        out[m.group(1)] = m.group(3) if m.group(3) is not None else m.group(2)
    return out


class Job:
    def __init__(self, **kw):
        self.__dict__.update(kw)


def module_path(src_rel):
    p = src_rel
    if p.startswith("src/"):
        p = p[4:]
    p = p[:-3] if p.endswith(".rs") else p
    parts = [x for x in p.split("/") if x]
    if parts and parts[-1] in ("lib", "main", "mod"):
        parts = parts[:-1]
    return "::".join(parts)


def scan_harness_text(text, modname, crate, src_rel, origin):
    """Find `// @verif k=v ...` annotations followed by #[kani::proof] fn NAME."""
    jobs = []
    pending = None
    attrs = []
    lines = text.split("\n")
    for i, line in enumerate(lines):
        m = VERIF_RE.match(line)
        if m:
            kv = parse_kv(m.group(1))
            if pending is None:
                pending = kv
            else:
                pending.update(kv)
            continue
        if pending is not None:
            if line.strip().startswith("#["):
                attrs.append(line.strip())
                continue
            m = FN_RE.match(line)
            if m:
                name = m.group(1) or m.group(2)
                if m.group(2):
                    attrs = attrs + ["#[kani::unwind(%s)]" % pending.get("unwind", "20" if "c05_file" in (m.group(2) or "") else "12")]
                unwind = None
                stubs = []
                for a in attrs:
                    mu = UNWIND_RE.search(a)
                    if mu:
                        unwind = int(mu.group(1))
                    ms = STUB_RE.search(a)
                    if ms:
                        stubs.append(ms.group(1).strip())
                # collect assumes in the fn body (until a line that is just "}")
                assumes = []
                for j in range(i + 1, min(i + 400, len(lines))):
                    if lines[j].rstrip() == "}":
                        break
                    ma = ASSUME_RE.search(lines[j])
                    if ma:
                        assumes.append("%s:%d: %s" % (origin, j + 1, ma.group(1).strip()[:160]))
                mp = module_path(src_rel)
                full = "::".join([x for x in (mp, modname, name) if x])
                jobs.append(Job(
                    name=name, full=full, crate=crate, src_rel=src_rel, origin=origin,
                    props=[p.strip() for p in pending.get("prop", "").split(",") if p.strip()],
                    tier=pending.get("tier", "quick"),
                    timeout=int(pending.get("timeout", "300")),
                    mem=int(pending.get("mem", "10000")),
                    arms=int(pending.get("arms", "1")),
                    sample=pending.get("sample", ""),
                    bounds=pending.get("bounds", ""),
                    clause=pending.get("clause", ""),
                    expect=pending.get("expect", "pass"),
                    unwind=unwind, stubs=stubs, assumes=assumes,
                    cbmc=pending.get("cbmc", "").split() if pending.get("cbmc") else [],
                    nocover=pending.get("nocover", "") == "1",
                    cost=int(pending.get("cost", pending.get("timeout", "300"))),
                    concrete=pending.get("concrete", "") == "1",
                    anysizes=[int(x) for x in pending.get("anysizes", "").split(",") if x.strip().isdigit() and int(x) > 0],
                ))
                pending = None
                attrs = []
                continue
            if line.strip() == "" or line.strip().startswith("//"):
                continue
            # something else: drop
            pending = None
            attrs = []
    return jobs


def load_harness_files():
    files = []
    hdir = os.path.join(VERIF, "harness")
    for dp, _dn, fns in os.walk(hdir):
        for fn in sorted(fns):
            if not fn.endswith(".rs"):
                continue
            p = os.path.join(dp, fn)
            text = open(p).read()
            m = ANCHOR_RE.search(text)
            if not m:
                continue
            kv = parse_kv(m.group(1))
            crate, src_rel = kv["crate"], kv["src"]
            modname = "verif_" + os.path.splitext(fn)[0]
            files.append(dict(path=p, crate=crate, src_rel=src_rel, modname=modname, text=text, export=kv.get("export", "") == "1",
                              needs=[x for x in kv.get("needs", "").split(",") if x],
                              jobs=scan_harness_text(text, modname, crate, src_rel, os.path.relpath(p, VERIF))))
    return files


def load_generators():
    gens = []
    gdir = os.path.join(VERIF, "gen")
    if not os.path.isdir(gdir):
        return gens
    for fn in sorted(os.listdir(gdir)):
        if fn.endswith(".py") and not fn.startswith("_"):
            spec = importlib.util.spec_from_file_location("gen_" + fn[:-3], os.path.join(gdir, fn))
            mod = importlib.util.module_from_spec(spec)
            spec.loader.exec_module(mod)
            gens.append(mod)
    return gens


def load_known():
    p = os.path.join(VERIF, "known_findings.json")
    if not os.path.exists(p):
        return []
    return json.load(open(p)).get("findings", [])


def match_known(prop, job, check, known):
    for k in known:
        if k.get("status", "open") != "open":
            continue
        if prop not in k.get("property", []):
            continue
        if not re.search(k.get("harness", ".*"), job.name):
            continue
        if not re.search(k.get("desc", ".*"), check.desc):
            continue
        if k.get("fn") and not re.search(k["fn"], check.fn or ""):
            continue
        return k
    return None


PLAYBACK_RE = re.compile(
    r"Concrete playback unit test for `(?P<h>[^`]+)`:\n```\n(?P<body>.*?)\n```", re.S)


def extract_playback_tests(text):
    tests = []
    for m in PLAYBACK_RE.finditer(text):
        body = m.group("body")
        mc = re.search(r"/// Check for `(\w+)`: \"(.*)\"", body)
        cls, desc = (mc.group(1), mc.group(2)) if mc else ("", "")
        mn = re.search(r"fn (kani_concrete_playback_\w+)\(", body)
        tests.append(dict(harness=m.group("h"), cls=cls, desc=desc, name=mn.group(1) if mn else "", body=body))
    return tests


def run_native_playback(root, crate, test_name, log_path, release=False, timeout=600):
    import subprocess
    cmd = ["cargo", "kani", "playback", "-Z", "concrete-playback", "-p", crate]
    if release:
        cmd.append("--release")
    cmd += ["--", test_name, "--exact"] if False else ["--", test_name]
    env = dict(os.environ)
    env["CARGO_NET_OFFLINE"] = "true"
    env["RUST_BACKTRACE"] = "0"
    with open(log_path, "w") as f:
        f.write("$ " + " ".join(cmd) + "\n")
        f.flush()
        try:
            rc = subprocess.run(cmd, cwd=root, stdout=f, stderr=subprocess.STDOUT, env=env, timeout=timeout).returncode
        except subprocess.TimeoutExpired:
            return "timeout", ""
    text = open(log_path, errors="replace").read()
    m = re.search(r"test result: (\w+)\. (\d+) passed; (\d+) failed", text)
    if not m:
        return "error", text[-2000:]
    if int(m.group(3)) > 0:
        pm = re.search(r"panicked at ([^\n]*)\n([^\n]*)", text)
        msg = (pm.group(0) if pm else "")[:400]
        if "concrete_playback.rs" in msg or "concrete values left over" in text:
            # the harness consumed fewer/more symbolic values natively than under Kani (stubs are not
            # applied natively): the counterexample does not transfer; not a reproduction
            return "mismatch", msg
        return "panicked", msg
    if int(m.group(2)) > 0:
        return "passed", ""
    return "notrun", ""


def append_test_to_module(root, crate, modname, body):
    hp = os.path.join(root, crate, "verif_h", modname + ".rs")
    with open(hp, "a") as f:
        f.write("\n" + body + "\n")


def main():
    ap = argparse.ArgumentParser()
    ap.add_argument("prop")
    ap.add_argument("--tier", default=os.environ.get("VERIF_TIER", "quick"))
    ap.add_argument("--replay")
    ap.add_argument("--only")
    ap.add_argument("--keep", action="store_true")
    ap.add_argument("--lanes", type=int, default=int(os.environ.get("VERIF_LANES", "12")))
    ap.add_argument("--no-evidence", action="store_true")
    ap.add_argument("--list", action="store_true")
    args = ap.parse_args()
    prop = args.prop.upper()
    tier = args.tier if args.tier in ("quick", "thorough") else "quick"
    seed = int(os.environ.get("VERIF_SEED", "0") or 0)
    t0 = time.time()

    if args.replay:
        return do_replay(prop, args.replay)

    files = load_harness_files()
    gens = load_generators()
    generated = []
    for g in gens:
        if prop in getattr(g, "PROPS", []):
            for (modname, crate, src_rel, text) in g.generate(prop, tier, seed):
                generated.append(dict(path=None, crate=crate, src_rel=src_rel, modname=modname, text=text,
                                      needs=getattr(g, "NEEDS", []),
                                      jobs=scan_harness_text(text, modname, crate, src_rel, "gen/%s" % g.__name__[4:])))

    def wanted(j):
        if prop not in j.props:
            return False
        if tier == "quick" and j.tier != "quick":
            return False
        if args.only and not re.search(args.only, j.name):
            return False
        return True

    sel_files = []
    jobs = []
    for f in files + generated:
        js = [j for j in f["jobs"] if wanted(j)]
        if js:
            sel_files.append(f)
            jobs += js
            for j in js:
                j.modname = f["modname"]
    if args.list:
        for j in jobs:
            print(j.tier, j.full, "timeout=%d" % j.timeout)
        return 0
    if not jobs:
        print("INCONCLUSIVE property=%s no harnesses selected" % prop)
        return 2

    # files needed as support modules (shared helpers)
    needed_mods = set()
    for f in sel_files:
        needed_mods.update(f["needs"])
    for f in files:
        if f["modname"] in needed_mods and f not in sel_files:
            sel_files.append(f)

    crates = ["abasic-core"]
    for f in sel_files:
        if f["crate"] not in crates:
            crates.append(f["crate"])
    try:
        ov = overlay.build(
            crates=crates,
            harness_files=[],
            generated=[(f["modname"], f["crate"], f["src_rel"], f["text"], f.get("export", False)) for f in sel_files],
        )
    except overlay.OverlayError as e:
        print("INCONCLUSIVE property=%s overlay: %s" % (prop, e))
        return 2
    root = ov["root"]
    logdir = os.path.join(root, "logs")
    os.makedirs(logdir, exist_ok=True)
    known = load_known()

    # lanes: one `cargo kani` invocation per lane running several harnesses sequentially
    # (one compile per lane); harnesses are spread over lanes by descending cost estimate.
    # Memory: a lane's cap is the largest `mem` of its jobs; the sum of caps stays under VERIF_MEM_MB.
    mem_total = int(os.environ.get("VERIF_MEM_MB", "52000"))
    HEAVY = 5000
    heavy = [j for j in jobs if j.mem > HEAVY]
    light = [j for j in jobs if j.mem <= HEAVY]
    heavy_cap = max([j.mem for j in heavy] or [0])
    light_cap = max([j.mem for j in light] or [0])
    share = 3 if len(light) > 3 * len(heavy) else 4
    n_heavy = min(len(heavy), max(1, (mem_total * (share - 1) // share if share == 4 else mem_total // 3) // max(heavy_cap, 1))) if heavy else 0
    n_light = 0
    if light:
        n_light = max(1, min(args.lanes, len(light), (mem_total - n_heavy * heavy_cap) // max(light_cap, 1)))

    def spread(js, n):
        js = sorted(js, key=lambda j: -j.cost)
        ls = [[] for _ in range(n)]
        cost = [0] * n
        crate = [None] * n
        for j in js:
            cands = [i for i in range(n) if crate[i] in (None, j.crate)] or list(range(n))
            i = min(cands, key=lambda k: cost[k])
            ls[i].append(j)
            cost[i] += j.cost
            crate[i] = j.crate
        out = []
        for l in ls:
            # a lane must be single-crate
            by = {}
            for j in l:
                by.setdefault(j.crate, []).append(j)
            out += list(by.values())
        return out

    lane_specs = [(l, heavy_cap) for l in spread(heavy, n_heavy)] + [(l, light_cap) for l in spread(light, n_light)]
    lane_specs = [(l, c) for l, c in lane_specs if l]
    per_lane_mem = max(light_cap, heavy_cap, 4000)
    lane_dirs = [os.path.join(root, "target-%d" % i) for i in range(len(lane_specs))]

    def work(i):
        lj, cap = lane_specs[i]
        remaining = list(lj)
        merged = {}
        total_wall = 0.0
        attempt = 0
        while remaining and attempt < 4:
            out, wall = kani.run_lane(root, remaining[0].crate, remaining, lane_dirs[i],
                                      os.path.join(logdir, "lane-%d-%d.log" % (i, attempt)), cap)
            total_wall += wall
            attempt += 1
            rerun = []
            for j in remaining:
                r = out[j.full]
                if r.status == "inconclusive" and r.reason.startswith("not run: lane killed"):
                    rerun.append(j)
                else:
                    merged[j.full] = r
            remaining = rerun
        for j in remaining:
            merged[j.full] = out[j.full]
        return i, merged, total_wall

    results = []
    with concurrent.futures.ThreadPoolExecutor(max_workers=max(1, len(lane_specs))) as ex:
        for i, out, wall in ex.map(work, range(len(lane_specs))):
            for job in lane_specs[i][0]:
                r = out[job.full]
                results.append((job, r))
                print("[%s] %-52s %-12s %6.1fs (symex %.0fs, solver %.0fs) %s" % (
                    prop, job.name, r.status, r.wall_s, r.symex_s, r.solver_s, r.reason), flush=True)
            print("[%s] lane %d: %d harnesses, wall %.0fs, peak %d MB (cap %d)" % (
                prop, i, len(lane_specs[i][0]), wall, max([out[j.full].peak_rss_mb for j in lane_specs[i][0]] or [0]), lane_specs[i][1]), flush=True)

    exit_code = 0
    violations = []
    known_lines = []
    replays = []
    inconclusive = []
    for job, r in results:
        if r.status == "inconclusive":
            inconclusive.append((job, r))
            continue
        if r.status != "violation":
            continue
        unknown = []
        matched = {}
        for c in r.failed:
            k = match_known(prop, job, c, known)
            if k:
                matched.setdefault(k["id"], (k, c))
            else:
                unknown.append(c)
        for kid, (k, c) in matched.items():
            known_lines.append("KNOWN-FINDING: property=%s %s: %s [%s @ %s]" % (prop, kid, k.get("what", ""), job.name, c.desc[:80]))
        r.known_matched = sorted(matched.keys())
        if not unknown:
            r.status = "ok-known"
            continue
        if violations and os.environ.get("VERIF_REPLAY_ALL", "0") != "1":
            # one natively reproduced violation already decides the exit code; replaying every further
            # failing harness (a playback run + a native build each) only costs time
            r.status = "violation-not-replayed"
            r.reason = "further failing harness, not replayed (a reproduced violation was already found): %s" % "; ".join(sorted(set(c.desc for c in unknown)))[:200]
            print("[%s] %s: %s" % (prop, job.name, r.reason))
            continue
        # replay: rerun with concrete playback, then run natively
        if job.concrete:
            # harness without symbolic inputs: the native replay is the harness itself
            class _PB:
                reason = "concrete harness"
                status = "concrete"
            pb = _PB()
            tname = "kani_concrete_playback_%s_0" % job.name
            body = ("/// Test generated for harness `%s` (no symbolic inputs: the harness itself)\n///\n"
                    "/// Check for `assertion`: \"%s\"\n\n#[test]\nfn %s() {\n    let concrete_vals: Vec<Vec<u8>> = vec![];\n"
                    "    kani::concrete_playback_run(concrete_vals, %s);\n}" % (job.full, unknown[0].desc.replace('"', "'"), tname, job.name))
            tests = [dict(harness=job.full, cls="assertion", desc=unknown[0].desc, name=tname, body=body)]
        else:
            pbout, _w = kani.run_lane(root, job.crate, [job], lane_dirs[0], os.path.join(logdir, job.name + ".playback.log"),
                                      int(os.environ.get("VERIF_PLAYBACK_MEM_MB", "24000")), playback=True)
            pb = pbout[job.full]
            tests = [t for t in extract_playback_tests(getattr(pb, "raw", "")) if t["cls"] != "cover"]
            if not tests and (job.anysizes or "anysizes" in getattr(job, "__dict__", {})):
                # Kani could not produce the trace (typically its 24 GB memory cap): fall back to a native
                # run of the harness with every symbolic input zero -- if the same harness panics natively
                # that is a genuine witness, whatever values the solver had picked
                tname = "kani_concrete_playback_%s_zeros" % job.name
                vals = ", ".join("vec![%s]" % ", ".join(["0"] * n) for n in job.anysizes)
                body = ("/// Test generated for harness `%s` (zero-valued inputs; Kani's own trace was not available)\n///\n"
                        "/// Check for `assertion`: \"%s\"\n\n#[test]\nfn %s() {\n    let concrete_vals: Vec<Vec<u8>> = vec![%s];\n"
                        "    kani::concrete_playback_run(concrete_vals, %s);\n}" % (job.full, unknown[0].desc.replace('"', "'"), tname, vals, job.name))
                tests = [dict(harness=job.full, cls="assertion", desc=unknown[0].desc, name=tname, body=body)]
        unknown_descs = set(c.desc for c in unknown)
        cand = [t for t in tests if t["desc"] in unknown_descs] or tests
        reproduced = None
        tried = 0
        for t in cand[:4]:
            tried += 1
            append_test_to_module(root, job.crate, job.modname, t["body"])
            out_dev, msg = run_native_playback(root, job.crate, t["name"], os.path.join(logdir, t["name"] + ".dev.log"))
            rec = dict(harness=job.name, check=t["desc"], test=t["name"], dev=out_dev, message=msg)
            if out_dev == "panicked":
                # `cargo kani playback` has no --release; the dev profile is the one Kani models
                out_rel = "not run (playback supports the dev profile only)"
                rec["release"] = out_rel
                h = hashlib.sha1((job.name + t["desc"]).encode()).hexdigest()[:10]
                os.makedirs(os.path.join(VERIF, "replays"), exist_ok=True)
                rp = os.path.join(VERIF, "replays", "%s-%s-%s.rs" % (prop, job.name, h))
                with open(rp, "w") as f:
                    f.write("// replay for property=%s harness=%s module=%s crate=%s src=%s\n" % (prop, job.full, job.modname, job.crate, job.src_rel))
                    f.write("// failing check: %s\n// native dev: %s; release: %s\n// %s\n" % (t["desc"], out_dev, out_rel, msg.replace("\n", " | ")))
                    f.write(t["body"] + "\n")
                rec["replay"] = rp
                reproduced = rec
                replays.append(rec)
                break
            replays.append(rec)
        if reproduced:
            violations.append((job, r, reproduced))
        else:
            r.status = "inconclusive"
            r.reason = "counterexample(s) did not reproduce natively (%d tried, %d generated%s): %s" % (
                tried, len(tests), "" if tests else "; playback run: " + (pb.reason or pb.status), "; ".join(sorted(unknown_descs))[:300])
            inconclusive.append((job, r))

    for line in sorted(set(known_lines)):
        print(line)
    for job, r, rec in violations:
        print("VIOLATION property=%s replay=%s" % (prop, rec["replay"]))
        print("  harness=%s check=%s" % (job.name, rec["check"]))
        exit_code = 1
    # Resource-bound inconclusives (timeout / memory cap on this machine) are reported and recorded in
    # the evidence as undecided -- never as passes -- but do not turn the whole check red as long as
    # most of the property's harnesses were decided; every other kind of inconclusive (harness no
    # longer compiles, vacuous cover, counterexample that does not reproduce) is exit 2.
    def _resource(r):
        return any(k in (r.reason or "") for k in ("timeout", "memory cap", "out of memory", "lane killed"))
    hard = [(j, r) for j, r in inconclusive if not _resource(r)]
    soft = [(j, r) for j, r in inconclusive if _resource(r)]
    for job, r in hard:
        print("INCONCLUSIVE property=%s harness=%s: %s (log: %s)" % (prop, job.name, r.reason, r.log_path))
    for job, r in soft:
        print("INCONCLUSIVE-RESOURCE property=%s harness=%s: %s -- undecided, not counted as explored" % (prop, job.name, r.reason))
    decided = sum(1 for _, r in results if r.status in ("ok", "ok-known", "violation"))
    if exit_code == 0 and (hard or decided * 10 < len(results) * 7):
        exit_code = 2

    wall = time.time() - t0
    if not args.no_evidence:
        write_evidence(prop, tier, seed, results, violations, inconclusive, known_lines, replays, ov, wall)

    if inconclusive and os.environ.get("VERIF_KEEP_LOGS", "1") == "1":
        keep = os.path.join(VERIF, "logs", prop)
        os.makedirs(keep, exist_ok=True)
        import shutil
        for job, r in inconclusive + [(j, rr) for j, rr, _ in violations]:
            if r.log_path and os.path.exists(r.log_path):
                # keep only the tail to bound disk use
                txt = open(r.log_path, errors="replace").read()
                open(os.path.join(keep, job.name + ".log"), "w").write(txt[:20000] + "\n...\n" + txt[-60000:])
    if args.keep:
        print("overlay kept at", root)
    else:
        overlay.remove(root)
    print("[%s] tier=%s harnesses=%d ok=%d known=%d violations=%d inconclusive=%d wall=%.0fs" % (
        prop, tier, len(results),
        sum(1 for _, r in results if r.status == "ok"),
        sum(1 for _, r in results if r.status == "ok-known"),
        len(violations), len(inconclusive), wall))
    return exit_code


def write_evidence(prop, tier, seed, results, violations, inconclusive, known_lines, replays, ov, wall):
    evaluations = 0
    nontrivial = 0
    samples = []
    functions = set()
    stubs = set()
    assumes = []
    harness_summaries = []
    queries = dict(sat_instances=0, sat=0, unsat=0)
    solver_s = 0.0
    symex_s = 0.0
    nan = 0
    bounds = {}
    for job, r in results:
        decided = r.status in ("ok", "ok-known", "violation")
        if decided:
            evaluations += job.arms
            # an arm is non-trivial iff its reach cover was SATISFIED
            arm_covers = [c for c in r.covers_sat if c.startswith("arm_") or c.startswith("reached")]
            nontrivial += min(job.arms, len(arm_covers)) if arm_covers else (1 if r.covers_sat else 0)
        functions |= r.functions
        for s in job.stubs:
            stubs.add(s)
        assumes += job.assumes
        queries["sat_instances"] += r.sat_queries
        queries["sat"] += r.sat_sat
        queries["unsat"] += r.sat_unsat
        solver_s += r.solver_s
        symex_s += r.symex_s
        nan += r.nan_notices
        hs = r.summary()
        hs["unwind"] = job.unwind
        hs["bounds"] = job.bounds
        hs["clause"] = job.clause
        hs["arms"] = job.arms
        hs["known_findings_matched"] = getattr(r, "known_matched", [])
        harness_summaries.append(hs)
        if job.sample and len(samples) < 40:
            samples.append({"harness": job.name, "case": job.sample, "bounds": job.bounds,
                            "covers_reached": r.covers_sat[:8]})
        bounds[job.name] = {"unwind": job.unwind, "stated": job.bounds}
    props = {}
    for line in open(os.path.join(VERIF, "properties.jsonl")):
        line = line.strip()
        if line:
            p = json.loads(line)
            props[p["id"]] = p
    ev = {
        "property_id": prop,
        "tier": tier,
        "seed": seed,
        "level": "model_checking",
        "wall_s": round(wall, 1),
        "violations": len(violations),
        "coverage": {
            "evaluations": evaluations,
            "distinct_nontrivial": nontrivial,
            "rule": ("one evaluation = one harness arm (concrete structure, symbolic data) symbolically executed by "
                     "Kani/CBMC over /repo's current source and decided by CaDiCaL with unwinding assertions on; "
                     "an arm is non-trivial iff its reachability cover was SATISFIED (an arm whose cover is "
                     "unsatisfied is vacuous and not counted); arms are distinct by construction (generator enumerates "
                     "a finite family without repetition)"),
            "samples": samples or [{"harness": j.name} for j, _ in results[:5]],
            "exhaustive": False,
            "engine": "kani 0.68.0 / CBMC 6.11.0 / CaDiCaL",
            "functions_encoded": sorted(functions),
            "bounds": bounds,
            "queries": queries,
            "solver_s": round(solver_s, 2),
            "symex_s": round(symex_s, 2),
            "unwinding_assertions": "on",
            "nan_notices": nan,
            "stubs": sorted(stubs),
            "model_containers": "verif_collections (Vec-backed HashMap/HashSet/BTreeSet)" if ov["rewritten"] else "std",
            "files_rewritten_imports_only": ov["rewritten"],
            "repo_rev": overlay.repo_rev(),
            "harnesses": harness_summaries,
            "inconclusive": [{"harness": j.name, "reason": r.reason} for j, r in inconclusive],
            "known_findings_reported": sorted(set(known_lines)),
            "replays": replays,
            "outside_claim": "see DESIGN.md section 5 (%s): bounds above are the claim; everything beyond them is outside" % prop,
        },
        "assumptions": sorted(set(assumes))[:200] + [
            "std containers replaced by the Vec-backed contract model (validated by running the repo's tests natively on it)",
            "CBMC NaN-check notices are not violations (producing NaN is not a panic in Rust)",
        ],
    }
    os.makedirs(os.path.join(VERIF, "evidence"), exist_ok=True)
    with open(os.path.join(VERIF, "evidence", prop + ".json"), "w") as f:
        json.dump(ev, f, indent=1)


def do_replay(prop, path):
    text = open(path).read()
    m = re.search(r"// replay for property=(\S+) harness=(\S+) module=(\S+) crate=(\S+) src=(\S+)", text)
    if not m:
        print("not a replay file")
        return 2
    _p, full, modname, crate, src_rel = m.groups()
    files = load_harness_files()
    gens = load_generators()
    sel = [f for f in files if f["modname"] == modname]
    if not sel:
        for g in gens:
            for tier in ("thorough",):
                for pr in getattr(g, "PROPS", []):
                    for (mn, cr, sr, tx) in g.generate(pr, tier, 0):
                        if mn == modname and not sel:
                            sel = [dict(modname=mn, crate=cr, src_rel=sr, text=tx, needs=getattr(g, "NEEDS", []))]
    if not sel:
        print("harness module %s not found" % modname)
        return 2
    needed = set(sel[0].get("needs", []))
    sel += [f for f in files if f["modname"] in needed]
    crates = ["abasic-core"] + ([crate] if crate != "abasic-core" else [])
    ov = overlay.build(crates=crates, generated=[(f["modname"], f["crate"], f["src_rel"], f["text"]) for f in sel])
    root = ov["root"]
    body = text[text.index("/// Test generated"):] if "/// Test generated" in text else text
    append_test_to_module(root, crate, modname, body)
    mn = re.search(r"fn (kani_concrete_playback_\w+)\(", body)
    out, msg = run_native_playback(root, crate, mn.group(1), os.path.join(root, "replay.log"))
    print("replay %s: native dev outcome: %s %s" % (path, out, msg))
    overlay.remove(root)
    if out == "panicked":
        print("VIOLATION property=%s replay=%s" % (prop, path))
        return 1
    return 0 if out == "passed" else 2


if __name__ == "__main__":
    sys.exit(main())
