#!/usr/bin/env python3
"""Validation of the container model: the repo's unit + integration tests of abasic-core are
executed natively on the overlay (std::collections redirected to verif_collections)."""
import os, re, subprocess, sys
sys.path.insert(0, os.path.dirname(os.path.abspath(__file__)))
import overlay

def main():
    ov = overlay.build(crates=["abasic-core"], model=True)
    root = ov["root"]
    try:
        env = dict(os.environ); env["CARGO_NET_OFFLINE"] = "true"; env.pop("RUST_BACKTRACE", None)
        p = subprocess.run(["cargo", "test", "-p", "abasic-core", "--no-fail-fast", "--offline",
                            "--target-dir", os.path.join(root, "target-native")],
                           cwd=root, capture_output=True, text=True, env=env)
        out = p.stdout + p.stderr
        passed = sum(int(m.group(1)) for m in re.finditer(r"test result: \w+\. (\d+) passed", out))
        failed = sorted(set(re.findall(r"^test (\S+) \.\.\. FAILED", out, re.M)))
        allowed = {"type_mismatch_works", "unterminated_string_literal_works"}  # always_fail in BASELINE.json
        print("model validation: %d tests passed natively on the container model; failed: %s; files rewritten: %s"
              % (passed, failed, ov["rewritten"]))
        if passed < 150 or (set(failed) - allowed):
            print("MODEL VALIDATION FAILED"); print(out[-3000:]); return 1
        return 0
    finally:
        overlay.remove(root)

if __name__ == "__main__":
    sys.exit(main())
