"""Overlay build (DESIGN.md §2.1): a scratch copy of /repo's *current working tree*
with (a) std::collections imports redirected to the environment model,
(b) harness files attached as child modules under cfg(kani).  Nothing is written
to /repo.  Regenerated on every run.
"""
import os
import re
import shutil
import subprocess
import tempfile

REPO = os.environ.get("VERIF_REPO", "/repo")
VERIF = os.path.dirname(os.path.dirname(os.path.abspath(__file__)))

CRATES = ["abasic-core", "abasic-web", "abasic-cli", "abasic-lsp"]


class OverlayError(Exception):
    pass


def scratch_root():
    base = os.environ.get("VERIF_SCRATCH")
    if base:
        os.makedirs(base, exist_ok=True)
        return tempfile.mkdtemp(prefix="ov-", dir=base)
    return tempfile.mkdtemp(prefix="verif-abasic-")


_USE_SIMPLE = re.compile(r"^use std::collections::(.*);\s*$")
_USE_NESTED = re.compile(r"^use std::\{collections::(\w+|\{[^}]*\}), (.*)\};\s*$")


def rewrite_collections(path, rel):
    """Redirect `use std::collections::...` to the model. Fails loudly on any
    other spelling so that a mis-modelled file is never silently analysed."""
    src = open(path).read()
    if "collections" not in src:
        return False
    out = []
    changed = False
    for line in src.split("\n"):
        m = _USE_SIMPLE.match(line)
        if m:
            out.append("use crate::verif_collections::%s;" % m.group(1))
            changed = True
            continue
        m = _USE_NESTED.match(line)
        if m:
            out.append("use crate::verif_collections::%s;" % m.group(1))
            out.append("use std::{%s};" % m.group(2))
            changed = True
            continue
        if "std::collections" in line or re.search(r"\bcollections::", line):
            raise OverlayError(
                "%s: unrecognised use of std::collections: %r" % (rel, line.strip())
            )
        out.append(line)
    if changed:
        open(path, "w").write("\n".join(out))
    return changed


def build(crates=("abasic-core",), harness_files=None, generated=None, model=True, root=None):
    """
    crates: crates to copy.
    harness_files: list of (harness_path_abs, crate, src_rel) -- attach harness as
        a child module of crate/src_rel.
    generated: list of (module_name, crate, src_rel, text) -- generated harness text.
    model: rewrite std::collections to the Vec-backed model in abasic-core.
    Returns dict(root=..., rewritten=[...], attached=[...]).
    """
    root = root or scratch_root()
    info = {"root": root, "rewritten": [], "attached": []}
    for c in crates:
        src = os.path.join(REPO, c)
        if not os.path.isdir(src):
            raise OverlayError("crate %s missing in %s" % (c, REPO))
        shutil.copytree(
            src,
            os.path.join(root, c),
            ignore=shutil.ignore_patterns("target", "node_modules", "pkg", "dist"),
        )
    lock = os.path.join(REPO, "Cargo.lock")
    if os.path.exists(lock):
        shutil.copy(lock, os.path.join(root, "Cargo.lock"))
    with open(os.path.join(root, "Cargo.toml"), "w") as f:
        f.write('[workspace]\nresolver = "2"\nmembers = [%s]\n' % ", ".join('"%s"' % c for c in crates))
    os.makedirs(os.path.join(root, ".cargo"), exist_ok=True)
    with open(os.path.join(root, ".cargo", "config.toml"), "w") as f:
        f.write("[net]\noffline = true\n")

    core_src = os.path.join(root, "abasic-core", "src")
    if model and "abasic-core" in crates:
        for dp, _dn, fn in os.walk(core_src):
            for name in fn:
                if name.endswith(".rs"):
                    p = os.path.join(dp, name)
                    rel = os.path.relpath(p, root)
                    if rewrite_collections(p, rel):
                        info["rewritten"].append(rel)
        shutil.copy(
            os.path.join(VERIF, "model", "verif_collections.rs"),
            os.path.join(core_src, "verif_collections.rs"),
        )
        with open(os.path.join(core_src, "lib.rs"), "a") as f:
            f.write("\n#[allow(dead_code)]\nmod verif_collections;\n")

    def attach(crate, src_rel, modname, text, export=False):
        hdir = os.path.join(root, crate, "verif_h")
        os.makedirs(hdir, exist_ok=True)
        hp = os.path.join(hdir, modname + ".rs")
        with open(hp, "w") as f:
            f.write(text)
        target = os.path.join(root, crate, src_rel)
        if not os.path.exists(target):
            raise OverlayError("harness anchor %s/%s does not exist" % (crate, src_rel))
        vis = "pub" if export else "pub(crate)"
        with open(target, "a") as f:
            f.write('\n#[cfg(kani)]\n#[path = "%s"]\n%s mod %s;\n' % (hp, vis, modname))
        if export:
            # make the module reachable from other crates of the overlay (contract stubs)
            mp = src_rel[4:-3].replace("/", "::")
            with open(os.path.join(root, crate, "src", "lib.rs"), "a") as f:
                f.write("\n#[cfg(kani)]\npub use %s::%s;\n" % (mp, modname))
        info["attached"].append((crate, src_rel, modname, hp))

    for hpath, crate, src_rel in harness_files or []:
        modname = "verif_" + os.path.splitext(os.path.basename(hpath))[0]
        attach(crate, src_rel, modname, open(hpath).read())
    for g in generated or []:
        modname, crate, src_rel, text = g[:4]
        attach(crate, src_rel, modname, text, export=(len(g) > 4 and g[4]))
    return info


def remove(root):
    shutil.rmtree(root, ignore_errors=True)


def repo_rev():
    try:
        head = subprocess.run(
            ["git", "-C", REPO, "rev-parse", "HEAD"], capture_output=True, text=True
        ).stdout.strip()
        dirty = subprocess.run(
            ["git", "-C", REPO, "status", "--porcelain", "--untracked-files=no"],
            capture_output=True,
            text=True,
        ).stdout.strip()
        return head + ("+dirty" if dirty else "")
    except Exception:
        return "unknown"
