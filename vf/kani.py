"""Run Kani harnesses on an overlay and classify CBMC's per-check results
(DESIGN.md §4.1).  Output format `old` is used so that CBMC's own statistics
(symex/solver runtimes, SAT instances, clauses) end up in the evidence.
"""
import os
import re
import signal
import subprocess
import threading
import time

KANI_BASE_ARGS = [
    "-Z", "stubbing", "-Z", "unstable-options",
]
CBMC_ARGS = ["--max-field-sensitivity-array-size", "4096"]

CHECK_RE = re.compile(r"^Check \d+: (?P<id>.+?\.(?P<cls>[A-Za-z_\-]+)\.\d+)$")
STATUS_RE = re.compile(r"^\s*- Status: (?P<status>\w+)")
DESC_RE = re.compile(r'^\s*- Description: "(?P<desc>.*)"$')
LOC_RE = re.compile(r"^\s*- Location: (?P<file>.+?):(?P<line>\d+):\d+ in function (?P<fn>.+)$")

INCONCLUSIVE_CLASSES = {"unwind", "recursion", "unsupported_construct"}
IGNORED_CLASSES = {"reachability_check"}
NOTICE_CLASSES = {"NaN"}


class Check:
    __slots__ = ("id", "cls", "line", "desc", "status", "file", "fn")

    def __init__(self, **kw):
        for k, v in kw.items():
            setattr(self, k, v)

    def as_dict(self):
        return {k: getattr(self, k) for k in self.__slots__}


class HarnessResult:
    def __init__(self, name):
        self.name = name
        self.status = "inconclusive"  # ok | violation | inconclusive
        self.reason = ""
        self.checks_total = 0
        self.failed = []          # violation candidates (Check)
        self.nan_notices = 0
        self.covers_sat = []      # descriptions
        self.covers_unsat = []
        self.inconclusive_checks = []
        self.functions = set()
        self.sat_queries = 0
        self.sat_sat = 0
        self.sat_unsat = 0
        self.solver_s = 0.0
        self.symex_s = 0.0
        self.max_clauses = 0
        self.max_vars = 0
        self.steps = 0
        self.wall_s = 0.0
        self.peak_rss_mb = 0
        self.log_path = None
        self.stubs = []
        self.unwind = None

    def summary(self):
        return {
            "harness": self.name,
            "status": self.status,
            "reason": self.reason,
            "checks": self.checks_total,
            "failed_checks": [c.as_dict() for c in self.failed][:20],
            "nan_notices": self.nan_notices,
            "covers_satisfied": len(self.covers_sat),
            "covers_unsatisfied": self.covers_unsat[:20],
            "sat_instances": self.sat_queries,
            "sat": self.sat_sat,
            "unsat": self.sat_unsat,
            "solver_s": round(self.solver_s, 3),
            "symex_s": round(self.symex_s, 3),
            "max_clauses": self.max_clauses,
            "max_variables": self.max_vars,
            "ssa_steps": self.steps,
            "wall_s": round(self.wall_s, 2),
            "peak_rss_mb": self.peak_rss_mb,
            "stubs_applied": self.stubs,
        }


def parse_output(text, res, repo_prefixes=("abasic-core/", "abasic-web/", "abasic-cli/", "abasic-lsp/")):
    """Parse Kani's regular output: CBMC statistics + post-processed per-check records."""
    saw_results = False
    cur = None

    def flush(c):
        if c is None:
            return
        classify(c, res)
        f = c.file or ""
        if c.fn and any(f.startswith(p) for p in repo_prefixes):
            if "verif_h/" not in f and "verif_collections" not in f:
                res.functions.add("%s::%s" % (f.split("/")[0], c.fn))

    for line in text.split("\n"):
        line = line.rstrip("\r")
        if line.startswith("RESULTS:"):
            saw_results = True
            continue
        if line.startswith("SUMMARY:"):
            flush(cur)
            cur = None
            res.saw_summary = True
            continue
        if line.startswith("Runtime Solver:"):
            try:
                res.solver_s += float(line.split(":")[1].strip().rstrip("s"))
            except ValueError:
                pass
            continue
        if line.startswith("Runtime Symex:"):
            try:
                res.symex_s += float(line.split(":")[1].strip().rstrip("s"))
            except ValueError:
                pass
            continue
        if line.startswith("SAT checker: instance is"):
            res.sat_queries += 1
            if "UNSATISFIABLE" in line:
                res.sat_unsat += 1
            else:
                res.sat_sat += 1
            continue
        m = re.match(r"^(\d+) variables, (\d+) clauses", line)
        if m:
            res.max_vars = max(res.max_vars, int(m.group(1)))
            res.max_clauses = max(res.max_clauses, int(m.group(2)))
            continue
        m = re.match(r"^size of program expression: (\d+) steps", line)
        if m:
            res.steps = max(res.steps, int(m.group(1)))
            continue
        m = re.match(r"^\s*- Stub: (.*)$", line)
        if m:
            res.stubs.append(m.group(1).strip())
            continue
        if line.startswith("VERIFICATION:- "):
            res.kani_verdict = line.split(":- ")[1].strip()
            continue
        m = CHECK_RE.match(line)
        if m:
            flush(cur)
            cur = Check(id=m.group("id"), cls=m.group("cls"), line=0, desc="", status="", file=None, fn=None)
            continue
        if cur is not None:
            m = STATUS_RE.match(line)
            if m:
                cur.status = m.group("status")
                continue
            m = DESC_RE.match(line)
            if m:
                cur.desc = m.group("desc")
                continue
            m = LOC_RE.match(line)
            if m:
                cur.file, cur.line, cur.fn = m.group("file"), int(m.group("line")), m.group("fn")
                continue
    flush(cur)
    return saw_results and getattr(res, "saw_summary", False)


def classify(c, res):
    if c.cls in IGNORED_CLASSES:
        return
    res.checks_total += 1
    if c.cls == "cover":
        label = c.desc.replace("cover condition: ", "")
        if c.status == "SATISFIED":
            res.covers_sat.append(label)
        elif c.status == "UNDETERMINED":
            res.inconclusive_checks.append(c)
        else:
            res.covers_unsat.append(label)
        return
    if c.status in ("SUCCESS", "UNREACHABLE"):
        return
    if c.cls in NOTICE_CLASSES:
        res.nan_notices += 1
        return
    if (c.cls in INCONCLUSIVE_CLASSES or "not currently supported" in c.desc
            or c.status in ("UNDETERMINED", "UNKNOWN", "ERROR")):
        res.inconclusive_checks.append(c)
        return
    res.failed.append(c)


def _group_rss_kb(pgid):
    total = 0
    try:
        for pid in os.listdir("/proc"):
            if not pid.isdigit():
                continue
            try:
                if os.getpgid(int(pid)) != pgid:
                    continue
                with open("/proc/%s/statm" % pid) as f:
                    total += int(f.read().split()[1]) * 4
            except (OSError, ValueError):
                continue
    except OSError:
        pass
    return total


def run_harness(root, crate, harness, target_dir, timeout_s, mem_mb, log_path,
                unwind=None, extra_kani=None, extra_cbmc=None, exact=True, required_covers=True,
                playback=False):
    """Run one harness. Returns HarnessResult."""
    res = HarnessResult(harness)
    res.log_path = log_path
    res.unwind = unwind
    cmd = ["cargo", "kani", "-p", crate, "--target-dir", target_dir, "--harness", harness]
    if exact:
        cmd.append("--exact")
    cmd += list(KANI_BASE_ARGS)
    if playback:
        cmd += ["-Z", "concrete-playback", "--concrete-playback=print"]
    if unwind is not None:
        cmd += ["--default-unwind", str(unwind)]
    cmd += list(extra_kani or [])
    cmd += ["--cbmc-args"] + CBMC_ARGS + list(extra_cbmc or [])
    env = dict(os.environ)
    env["CARGO_NET_OFFLINE"] = "true"
    env.pop("RUSTUP_TOOLCHAIN", None)
    t0 = time.time()
    with open(log_path, "w") as logf:
        logf.write("$ " + " ".join(cmd) + "\n")
        logf.flush()
        p = subprocess.Popen(cmd, cwd=root, stdout=logf, stderr=subprocess.STDOUT,
                             env=env, start_new_session=True)
        killed = {"why": None}
        peak = {"kb": 0}

        def monitor():
            while p.poll() is None:
                time.sleep(1.0)
                kb = _group_rss_kb(p.pid)
                peak["kb"] = max(peak["kb"], kb)
                if kb > mem_mb * 1024:
                    killed["why"] = "memory cap %d MB exceeded" % mem_mb
                elif time.time() - t0 > timeout_s:
                    killed["why"] = "timeout %ds" % timeout_s
                if killed["why"]:
                    try:
                        os.killpg(p.pid, signal.SIGKILL)
                    except OSError:
                        pass
                    return

        th = threading.Thread(target=monitor, daemon=True)
        th.start()
        rc = p.wait()
        th.join(timeout=3)
    res.wall_s = time.time() - t0
    res.peak_rss_mb = peak["kb"] // 1024
    text = open(log_path, errors="replace").read()
    res.raw = text if playback else ""
    if killed["why"]:
        res.status = "inconclusive"
        res.reason = killed["why"]
        parse_output(text, res)
        return res
    saw = parse_output(text, res)
    if not saw:
        if "run out of memory" in text:
            res.reason = "CBMC ran out of memory"
            res.status = "inconclusive"
            return res
        if re.search(r"error(\[E\d+\])?:", text) or "could not compile" in text:
            res.reason = "harness does not compile against current /repo (or kani error); see log"
        elif "no harnesses matched" in text or "No proof harnesses" in text:
            res.reason = "harness not found"
        else:
            res.reason = "no CBMC results in output (rc=%s)" % rc
        res.status = "inconclusive"
        return res
    if res.inconclusive_checks:
        c = res.inconclusive_checks[0]
        res.status = "inconclusive"
        res.reason = "%s: %s (%s)" % (c.cls, c.desc[:120], c.fn)
        # failed candidates alongside an unwinding failure are not trustworthy either way
        return res
    if res.failed:
        res.status = "violation"
        res.reason = "%d failing check(s)" % len(res.failed)
        return res
    if required_covers and res.covers_unsat:
        res.status = "inconclusive"
        res.reason = "vacuity: cover not satisfied: %s" % "; ".join(res.covers_unsat[:3])
        return res
    res.status = "ok"
    return res


SEG_RE = re.compile(r"^Checking harness (?P<h>\S+?)\.\.\.\s*$", re.M)


def run_lane(root, crate, jobs, target_dir, log_path, mem_mb, playback=False):
    """Run several harnesses (same crate) in one `cargo kani` invocation, sequentially.
    jobs: objects with .full, .name, .timeout, .cbmc, .nocover.  Returns {full_name: HarnessResult}."""
    per_timeout = max(j.timeout for j in jobs)
    cmd = ["cargo", "kani", "-p", crate, "--target-dir", target_dir, "--exact"]
    for j in jobs:
        cmd += ["--harness", j.full]
    cmd += list(KANI_BASE_ARGS)
    cmd += ["--harness-timeout", "%ds" % per_timeout]
    if playback:
        cmd += ["-Z", "concrete-playback", "--concrete-playback=print"]
    extra = []
    for j in jobs:
        for a in (j.cbmc or []):
            if a not in extra:
                extra.append(a)
    cmd += ["--cbmc-args"] + CBMC_ARGS + extra
    env = dict(os.environ)
    env["CARGO_NET_OFFLINE"] = "true"
    env.pop("RUSTUP_TOOLCHAIN", None)
    total_timeout = 300 + sum(j.timeout for j in jobs)
    t0 = time.time()
    killed = {"why": None}
    peak = {"kb": 0}
    with open(log_path, "w") as logf:
        logf.write("$ " + " ".join(cmd) + "\n")
        logf.flush()
        p = subprocess.Popen(cmd, cwd=root, stdout=logf, stderr=subprocess.STDOUT, env=env, start_new_session=True)

        def monitor():
            while p.poll() is None:
                time.sleep(1.0)
                kb = _group_rss_kb(p.pid)
                peak["kb"] = max(peak["kb"], kb)
                if kb > mem_mb * 1024:
                    killed["why"] = "memory cap %d MB exceeded" % mem_mb
                elif time.time() - t0 > total_timeout:
                    killed["why"] = "lane timeout %ds" % total_timeout
                if killed["why"]:
                    try:
                        os.killpg(p.pid, signal.SIGKILL)
                    except OSError:
                        pass
                    return

        th = threading.Thread(target=monitor, daemon=True)
        th.start()
        p.wait()
        th.join(timeout=3)
    wall = time.time() - t0
    text = open(log_path, errors="replace").read()
    segs = {}
    ms = list(SEG_RE.finditer(text))
    for i, m in enumerate(ms):
        end = ms[i + 1].start() if i + 1 < len(ms) else len(text)
        segs[m.group("h")] = text[m.start():end]
    preamble = text[:ms[0].start()] if ms else text
    compile_failed = (not ms) and (re.search(r"^error(\[E\d+\])?:", text, re.M) or "could not compile" in text)
    out = {}
    for j in jobs:
        res = HarnessResult(j.name)
        res.log_path = log_path
        res.peak_rss_mb = peak["kb"] // 1024
        seg = segs.get(j.full)
        if seg is None:
            res.status = "inconclusive"
            if compile_failed:
                res.reason = "harness does not compile against current /repo (or kani error); see log"
            elif killed["why"]:
                res.reason = "not run: lane killed (%s)" % killed["why"]
            else:
                res.reason = "harness not run / not found (see log)"
            out[j.full] = res
            continue
        res.raw = seg if playback else ""
        saw = parse_output(seg, res)
        mt = re.search(r"Verification Time: ([0-9.]+)s", seg)
        res.wall_s = float(mt.group(1)) if mt else 0.0
        if not saw:
            res.status = "inconclusive"
            if "run out of memory" in seg:
                res.reason = "CBMC ran out of memory"
            elif "timed out" in seg.lower() or "timeout" in seg.lower():
                res.reason = "harness timeout %ds" % per_timeout
            elif killed["why"]:
                res.reason = killed["why"]
            else:
                res.reason = "no CBMC results for this harness (see log)"
        elif res.inconclusive_checks:
            c = res.inconclusive_checks[0]
            res.status = "inconclusive"
            res.reason = "%s: %s (%s)" % (c.cls, c.desc[:120], c.fn)
        elif res.failed:
            res.status = "violation"
            res.reason = "%d failing check(s)" % len(res.failed)
        elif (not j.nocover) and res.covers_unsat:
            res.status = "inconclusive"
            res.reason = "vacuity: cover not satisfied: %s" % "; ".join(res.covers_unsat[:3])
        else:
            res.status = "ok"
        out[j.full] = res
    return out, wall
