// replay for property=C04 harness=program_lines::verif_program_lines::c04_history_3 module=verif_program_lines crate=abasic-core src=src/program_lines.rs
// failing check: "c04: the successor of a line is the least stored line above it"
// native dev: panicked; release: not run (playback supports the dev profile only)
// panicked at /tmp/verif-abasic-544jge0k/abasic-core/verif_h/verif_program_lines.rs:115:5: | c04: the successor of a line is the least stored line above it
/// Test generated for harness `program_lines::verif_program_lines::c04_history_3` 
///
/// Check for `assertion`: ""c04: the successor of a line is the least stored line above it""

#[test]
fn kani_concrete_playback_c04_history_3_14355913962547756600() {
    let concrete_vals: Vec<Vec<u8>> = vec![
        // 3
        vec![3],
        // 18446744073709551615ul
        vec![255, 255, 255, 255, 255, 255, 255, 255],
        // 18446744073709551615ul
        vec![255, 255, 255, 255, 255, 255, 255, 255],
        // 18446744073709551615ul
        vec![255, 255, 255, 255, 255, 255, 255, 255],
        // 18446744073709551615ul
        vec![255, 255, 255, 255, 255, 255, 255, 255],
    ];
    kani::concrete_playback_run(concrete_vals, c04_history_3);
}
