// replay for property=C18 harness=random::verif_random::c18_rnd_dispatch module=verif_random crate=abasic-core src=src/random.rs
// failing check: "c18: positive argument advances exactly once"
// native dev: panicked; release: not run (playback supports the dev profile only)
// panicked at /tmp/verif-abasic-ruje2xbm/abasic-core/verif_h/verif_random.rs:66:9: | c18: positive argument advances exactly once
/// Test generated for harness `random::verif_random::c18_rnd_dispatch` 
///
/// Check for `assertion`: ""c18: positive argument advances exactly once""

#[test]
fn kani_concrete_playback_c18_rnd_dispatch_7784546828656508366() {
    let concrete_vals: Vec<Vec<u8>> = vec![
        // 7201734671ul
        vec![15, 192, 65, 173, 1, 0, 0, 0],
        // 4.940656e-324
        vec![1, 0, 0, 0, 0, 0, 0, 0],
    ];
    kani::concrete_playback_run(concrete_vals, c18_rnd_dispatch);
}
