// replay for property=C02 harness=interpreter::verif_c02_gen::c02_seeded_pairs_9 module=verif_c02_gen crate=abasic-core src=src/interpreter.rs
// failing check: "c02 arm pair -,/ paren-free [n0 - V1 / n2]: value/error differs from the reference fold"
// native dev: panicked; release: not run (playback supports the dev profile only)
// panicked at /tmp/verif-abasic-tosk7vro/abasic-core/verif_h/verif_c02_gen.rs:3872:9: | c02 arm pair -,/ paren-free [n0 - V1 / n2]: value/error differs from the reference fold
/// Test generated for harness `interpreter::verif_c02_gen::c02_seeded_pairs_9` 
///
/// Check for `assertion`: ""c02 arm pair -,/ paren-free [n0 - V1 / n2]: value/error differs from the reference fold""
///
/// # Warning
///
/// Concrete playback tests combined with stubs or contracts is highly
/// experimental, and subject to change.
///
/// The original harness has stubs which are not applied to this test.
/// This may cause a mismatch of non-deterministic values if the stub
/// creates any non-deterministic value.
/// The execution path may also differ, which can be used to refine the stub
/// logic.

#[test]
fn kani_concrete_playback_c02_seeded_pairs_9_2579370599866306517() {
    let concrete_vals: Vec<Vec<u8>> = vec![
        // 0
        vec![0, 0],
        // 0
        vec![0],
        // 0
        vec![0],
        // 0
        vec![0],
    ];
    kani::concrete_playback_run(concrete_vals, c02_seeded_pairs_9);
}
