//! Environment model for the std containers used by abasic-core (DESIGN.md §2.2).
//!
//! Vec-backed association lists with the same observable contract as
//! `std::collections::{HashMap, HashSet, BTreeSet}` for the API subset the
//! repository uses (plus a margin of commonly used methods, so that a realistic
//! edit of /repo still compiles against the model).  hashbrown's SIMD probing
//! and the B-tree node loops are intractable for CBMC even for one concrete
//! insert (measured), so the containers are *environment*; the repository's own
//! tests are run natively against this model by `setup` as its validation.
//!
//! Contract differences, stated: `HashMap`/`HashSet` iteration order is
//! insertion order (std: arbitrary).
#![allow(dead_code)]

use std::borrow::Borrow;
use std::fmt::Debug;
use std::mem::ManuallyDrop;
use std::ops::{Bound, RangeBounds};

/// What `insert`/`remove` hand back: the displaced value, *leaked* instead of dropped when the
/// caller ignores it.  Drop glue of a token vector whose presence is symbolic is what makes CBMC
/// explode (measured); leaking only changes `Rc` strong counts, observable solely through the
/// string manager's statistics, which no property mentions.  Derefs to `Option<V>` so `.is_some()`
/// etc. keep working; code that destructures the result must call `.into_option()` -- today no call
/// site in /repo uses the returned value at all.
pub struct Displaced<V>(ManuallyDrop<Option<V>>);

impl<V> Displaced<V> {
    fn new(v: Option<V>) -> Self {
        Displaced(ManuallyDrop::new(v))
    }
    pub fn into_option(self) -> Option<V> {
        ManuallyDrop::into_inner(self.0)
    }
}

impl<V> std::ops::Deref for Displaced<V> {
    type Target = Option<V>;
    fn deref(&self) -> &Option<V> {
        &self.0
    }
}

impl<V: PartialEq> PartialEq<Option<V>> for Displaced<V> {
    fn eq(&self, other: &Option<V>) -> bool {
        &*self.0 == other
    }
}

impl<V: Debug> Debug for Displaced<V> {
    fn fmt(&self, f: &mut std::fmt::Formatter<'_>) -> std::fmt::Result {
        (*self.0).fmt(f)
    }
}

/// `entries` is never dropped: dropping a map *leaks* its contents.  Drop glue over a slice whose
/// length CBMC cannot resolve to a constant (e.g. the bindings of a popped stack frame after a path
/// merge) unwinds to the bound on every path and was measured to push session harnesses past 5 GB;
/// leaking only changes `Rc` strong counts (see `Displaced`).
pub struct HashMap<K, V> {
    entries: ManuallyDrop<Vec<(K, V)>>,
}

impl<K: Clone, V: Clone> Clone for HashMap<K, V> {
    fn clone(&self) -> Self {
        HashMap { entries: ManuallyDrop::new((*self.entries).clone()) }
    }
}

impl<K, V> Default for HashMap<K, V> {
    fn default() -> Self {
        HashMap { entries: ManuallyDrop::new(Vec::new()) }
    }
}

impl<K: Debug, V: Debug> Debug for HashMap<K, V> {
    fn fmt(&self, f: &mut std::fmt::Formatter<'_>) -> std::fmt::Result {
        f.debug_map()
            .entries(self.entries.iter().map(|(k, v)| (k, v)))
            .finish()
    }
}

impl<K: Eq, V: PartialEq> PartialEq for HashMap<K, V> {
    fn eq(&self, other: &Self) -> bool {
        self.len() == other.len()
            && self
                .entries
                .iter()
                .all(|(k, v)| other.get(k).map_or(false, |ov| ov == v))
    }
}

/// `std::collections::hash_map::Entry` (enum form, so that code matching on Occupied / Vacant
/// compiles against the model as well)
pub enum Entry<'a, K, V> {
    Occupied(OccupiedEntry<'a, K, V>),
    Vacant(VacantEntry<'a, K, V>),
}

pub struct OccupiedEntry<'a, K, V> {
    map: &'a mut HashMap<K, V>,
    index: usize,
}

pub struct VacantEntry<'a, K, V> {
    map: &'a mut HashMap<K, V>,
    key: K,
}

impl<'a, K, V> OccupiedEntry<'a, K, V> {
    pub fn key(&self) -> &K {
        &self.map.entries[self.index].0
    }
    pub fn get(&self) -> &V {
        &self.map.entries[self.index].1
    }
    pub fn get_mut(&mut self) -> &mut V {
        &mut self.map.entries[self.index].1
    }
    pub fn into_mut(self) -> &'a mut V {
        &mut self.map.entries[self.index].1
    }
    pub fn insert(&mut self, value: V) -> V {
        std::mem::replace(&mut self.map.entries[self.index].1, value)
    }
    pub fn remove(self) -> V {
        let (k, v) = self.map.entries.swap_remove(self.index);
        std::mem::forget(k);
        v
    }
}

impl<'a, K, V> VacantEntry<'a, K, V> {
    pub fn key(&self) -> &K {
        &self.key
    }
    pub fn into_key(self) -> K {
        self.key
    }
    pub fn insert(self, value: V) -> &'a mut V {
        self.map.entries.push((self.key, value));
        let last = self.map.entries.len() - 1;
        &mut self.map.entries[last].1
    }
}

impl<'a, K, V> Entry<'a, K, V> {
    pub fn or_insert_with<F: FnOnce() -> V>(self, f: F) -> &'a mut V {
        match self {
            Entry::Occupied(e) => e.into_mut(),
            Entry::Vacant(e) => e.insert(f()),
        }
    }
    pub fn or_insert(self, v: V) -> &'a mut V {
        self.or_insert_with(|| v)
    }
    pub fn or_default(self) -> &'a mut V
    where
        V: Default,
    {
        self.or_insert_with(V::default)
    }
    pub fn key(&self) -> &K {
        match self {
            Entry::Occupied(e) => e.key(),
            Entry::Vacant(e) => e.key(),
        }
    }
    pub fn and_modify<F: FnOnce(&mut V)>(mut self, f: F) -> Self {
        if let Entry::Occupied(e) = &mut self {
            f(e.get_mut());
        }
        self
    }
}

pub mod hash_map {
    pub use super::{Entry, HashMap, OccupiedEntry, VacantEntry};
}

pub mod btree_set {
    pub use super::BTreeSet;
}

pub mod hash_set {
    pub use super::HashSet;
}

impl<K, V> HashMap<K, V> {
    pub fn new() -> Self {
        Self::default()
    }
    pub fn with_capacity(_capacity: usize) -> Self {
        Self::default()
    }
    pub fn len(&self) -> usize {
        self.entries.len()
    }
    pub fn is_empty(&self) -> bool {
        self.entries.is_empty()
    }
    pub fn clear(&mut self) {
        self.entries.clear();
    }
    pub fn iter(&self) -> impl Iterator<Item = (&K, &V)> {
        self.entries.iter().map(|(k, v)| (k, v))
    }
    pub fn iter_mut(&mut self) -> impl Iterator<Item = (&K, &mut V)> {
        self.entries.iter_mut().map(|(k, v)| (&*k, v))
    }
    pub fn keys(&self) -> impl Iterator<Item = &K> {
        self.entries.iter().map(|(k, _)| k)
    }
    pub fn values(&self) -> impl Iterator<Item = &V> {
        self.entries.iter().map(|(_, v)| v)
    }
    pub fn values_mut(&mut self) -> impl Iterator<Item = &mut V> {
        self.entries.iter_mut().map(|(_, v)| v)
    }
    pub fn drain(&mut self) -> std::vec::Drain<'_, (K, V)> {
        self.entries.drain(..)
    }
    pub fn retain<F: FnMut(&K, &mut V) -> bool>(&mut self, mut f: F) {
        self.entries.retain_mut(|(k, v)| f(k, v));
    }
}

impl<K: Eq, V> HashMap<K, V> {
    fn position<Q: ?Sized + Eq>(&self, key: &Q) -> Option<usize>
    where
        K: Borrow<Q>,
    {
        let mut i = 0;
        while i < self.entries.len() {
            if self.entries[i].0.borrow() == key {
                return Some(i);
            }
            i += 1;
        }
        None
    }
    pub fn get<Q: ?Sized + Eq>(&self, key: &Q) -> Option<&V>
    where
        K: Borrow<Q>,
    {
        match self.position(key) {
            Some(i) => Some(&self.entries[i].1),
            None => None,
        }
    }
    pub fn get_mut<Q: ?Sized + Eq>(&mut self, key: &Q) -> Option<&mut V>
    where
        K: Borrow<Q>,
    {
        match self.position(key) {
            Some(i) => Some(&mut self.entries[i].1),
            None => None,
        }
    }
    pub fn get_key_value<Q: ?Sized + Eq>(&self, key: &Q) -> Option<(&K, &V)>
    where
        K: Borrow<Q>,
    {
        match self.position(key) {
            Some(i) => Some((&self.entries[i].0, &self.entries[i].1)),
            None => None,
        }
    }
    pub fn contains_key<Q: ?Sized + Eq>(&self, key: &Q) -> bool
    where
        K: Borrow<Q>,
    {
        self.position(key).is_some()
    }
    pub fn insert(&mut self, key: K, value: V) -> Displaced<V> {
        match self.position(&key) {
            Some(i) => Displaced::new(Some(std::mem::replace(&mut self.entries[i].1, value))),
            None => {
                self.entries.push((key, value));
                Displaced::new(None)
            }
        }
    }
    pub fn remove<Q: ?Sized + Eq>(&mut self, key: &Q) -> Displaced<V>
    where
        K: Borrow<Q>,
    {
        match self.position(key) {
            Some(i) => {
                // iteration order of a hash map is arbitrary: swap_remove avoids shifting
                let (k, v) = self.entries.swap_remove(i);
                std::mem::forget(k);
                Displaced::new(Some(v))
            }
            None => Displaced::new(None),
        }
    }
    pub fn entry(&mut self, key: K) -> Entry<'_, K, V> {
        match self.position(&key) {
            Some(index) => {
                std::mem::forget(key);
                Entry::Occupied(OccupiedEntry { map: self, index })
            }
            None => Entry::Vacant(VacantEntry { map: self, key }),
        }
    }
    pub fn extend<I: IntoIterator<Item = (K, V)>>(&mut self, iter: I) {
        for (k, v) in iter {
            self.insert(k, v);
        }
    }
}

impl<'a, K, V> IntoIterator for &'a HashMap<K, V> {
    type Item = (&'a K, &'a V);
    type IntoIter = std::iter::Map<std::slice::Iter<'a, (K, V)>, fn(&'a (K, V)) -> (&'a K, &'a V)>;
    fn into_iter(self) -> Self::IntoIter {
        fn split<'b, K, V>(e: &'b (K, V)) -> (&'b K, &'b V) {
            (&e.0, &e.1)
        }
        self.entries.iter().map(split as fn(&'a (K, V)) -> (&'a K, &'a V))
    }
}

impl<K, V> IntoIterator for HashMap<K, V> {
    type Item = (K, V);
    type IntoIter = std::vec::IntoIter<(K, V)>;
    fn into_iter(self) -> Self::IntoIter {
        ManuallyDrop::into_inner(self.entries).into_iter()
    }
}

impl<K: Eq, V> FromIterator<(K, V)> for HashMap<K, V> {
    fn from_iter<I: IntoIterator<Item = (K, V)>>(iter: I) -> Self {
        let mut m = HashMap::default();
        for (k, v) in iter {
            m.insert(k, v);
        }
        m
    }
}

impl<K: Eq, Q: ?Sized + Eq, V> std::ops::Index<&Q> for HashMap<K, V>
where
    K: Borrow<Q>,
{
    type Output = V;
    fn index(&self, key: &Q) -> &V {
        self.get(key).expect("no entry found for key")
    }
}

// ---------------------------------------------------------------------------

#[derive(Clone)]
pub struct HashSet<T> {
    items: Vec<T>,
}

impl<T> Default for HashSet<T> {
    fn default() -> Self {
        HashSet { items: Vec::new() }
    }
}

impl<T: Debug> Debug for HashSet<T> {
    fn fmt(&self, f: &mut std::fmt::Formatter<'_>) -> std::fmt::Result {
        f.debug_set().entries(self.items.iter()).finish()
    }
}

impl<T> HashSet<T> {
    pub fn new() -> Self {
        Self::default()
    }
    pub fn with_capacity(_capacity: usize) -> Self {
        Self::default()
    }
    pub fn len(&self) -> usize {
        self.items.len()
    }
    pub fn is_empty(&self) -> bool {
        self.items.is_empty()
    }
    pub fn clear(&mut self) {
        self.items.clear();
    }
    pub fn iter(&self) -> std::slice::Iter<'_, T> {
        self.items.iter()
    }
    pub fn drain(&mut self) -> std::vec::Drain<'_, T> {
        self.items.drain(..)
    }
    pub fn retain<F: FnMut(&T) -> bool>(&mut self, f: F) {
        self.items.retain(f);
    }
}

impl<T: Eq> HashSet<T> {
    fn position<Q: ?Sized + Eq>(&self, value: &Q) -> Option<usize>
    where
        T: Borrow<Q>,
    {
        let mut i = 0;
        while i < self.items.len() {
            if self.items[i].borrow() == value {
                return Some(i);
            }
            i += 1;
        }
        None
    }
    pub fn get<Q: ?Sized + Eq>(&self, value: &Q) -> Option<&T>
    where
        T: Borrow<Q>,
    {
        match self.position(value) {
            Some(i) => Some(&self.items[i]),
            None => None,
        }
    }
    pub fn contains<Q: ?Sized + Eq>(&self, value: &Q) -> bool
    where
        T: Borrow<Q>,
    {
        self.position(value).is_some()
    }
    pub fn insert(&mut self, value: T) -> bool {
        if self.position(&value).is_some() {
            false
        } else {
            self.items.push(value);
            true
        }
    }
    pub fn remove<Q: ?Sized + Eq>(&mut self, value: &Q) -> bool
    where
        T: Borrow<Q>,
    {
        match self.position(value) {
            Some(i) => {
                self.items.remove(i);
                true
            }
            None => false,
        }
    }
    pub fn extend<I: IntoIterator<Item = T>>(&mut self, iter: I) {
        for v in iter {
            self.insert(v);
        }
    }
}

impl<'a, T> IntoIterator for &'a HashSet<T> {
    type Item = &'a T;
    type IntoIter = std::slice::Iter<'a, T>;
    fn into_iter(self) -> Self::IntoIter {
        self.items.iter()
    }
}

impl<T> IntoIterator for HashSet<T> {
    type Item = T;
    type IntoIter = std::vec::IntoIter<T>;
    fn into_iter(self) -> Self::IntoIter {
        self.items.into_iter()
    }
}

impl<T: Eq> FromIterator<T> for HashSet<T> {
    fn from_iter<I: IntoIterator<Item = T>>(iter: I) -> Self {
        let mut s = HashSet::default();
        for v in iter {
            s.insert(v);
        }
        s
    }
}

// ---------------------------------------------------------------------------

/// Sorted, duplicate-free Vec.
#[derive(Clone, PartialEq)]
pub struct BTreeSet<T> {
    items: Vec<T>,
}

impl<T> Default for BTreeSet<T> {
    fn default() -> Self {
        BTreeSet { items: Vec::new() }
    }
}

impl<T: Debug> Debug for BTreeSet<T> {
    fn fmt(&self, f: &mut std::fmt::Formatter<'_>) -> std::fmt::Result {
        f.debug_set().entries(self.items.iter()).finish()
    }
}

pub struct SetRange<'a, T> {
    items: &'a [T],
}

impl<'a, T> Iterator for SetRange<'a, T> {
    type Item = &'a T;
    fn next(&mut self) -> Option<&'a T> {
        match self.items.split_first() {
            Some((first, rest)) => {
                self.items = rest;
                Some(first)
            }
            None => None,
        }
    }
}

impl<'a, T> DoubleEndedIterator for SetRange<'a, T> {
    fn next_back(&mut self) -> Option<&'a T> {
        match self.items.split_last() {
            Some((last, rest)) => {
                self.items = rest;
                Some(last)
            }
            None => None,
        }
    }
}

impl<T> BTreeSet<T> {
    pub fn new() -> Self {
        Self::default()
    }
    pub fn len(&self) -> usize {
        self.items.len()
    }
    pub fn is_empty(&self) -> bool {
        self.items.is_empty()
    }
    pub fn clear(&mut self) {
        self.items.clear();
    }
    pub fn iter(&self) -> std::slice::Iter<'_, T> {
        self.items.iter()
    }
    pub fn first(&self) -> Option<&T> {
        self.items.first()
    }
    pub fn last(&self) -> Option<&T> {
        self.items.last()
    }
}

impl<T: Ord> BTreeSet<T> {
    /// index of the first element >= value
    fn lower_bound(&self, value: &T) -> usize {
        let mut i = 0;
        while i < self.items.len() {
            if &self.items[i] >= value {
                return i;
            }
            i += 1;
        }
        i
    }
    pub fn contains(&self, value: &T) -> bool {
        let i = self.lower_bound(value);
        i < self.items.len() && &self.items[i] == value
    }
    pub fn insert(&mut self, value: T) -> bool {
        let i = self.lower_bound(&value);
        if i < self.items.len() && self.items[i] == value {
            false
        } else {
            self.items.insert(i, value);
            true
        }
    }
    pub fn remove(&mut self, value: &T) -> bool {
        let i = self.lower_bound(value);
        if i < self.items.len() && &self.items[i] == value {
            self.items.remove(i);
            true
        } else {
            false
        }
    }
    pub fn range<R: RangeBounds<T>>(&self, range: R) -> SetRange<'_, T> {
        let start = match range.start_bound() {
            Bound::Included(v) => self.lower_bound(v),
            Bound::Excluded(v) => {
                let i = self.lower_bound(v);
                if i < self.items.len() && &self.items[i] == v {
                    i + 1
                } else {
                    i
                }
            }
            Bound::Unbounded => 0,
        };
        let end = match range.end_bound() {
            Bound::Included(v) => {
                let i = self.lower_bound(v);
                if i < self.items.len() && &self.items[i] == v {
                    i + 1
                } else {
                    i
                }
            }
            Bound::Excluded(v) => self.lower_bound(v),
            Bound::Unbounded => self.items.len(),
        };
        if start >= end {
            SetRange { items: &[] }
        } else {
            SetRange {
                items: &self.items[start..end],
            }
        }
    }
    pub fn extend<I: IntoIterator<Item = T>>(&mut self, iter: I) {
        for v in iter {
            self.insert(v);
        }
    }
}

impl<'a, T> IntoIterator for &'a BTreeSet<T> {
    type Item = &'a T;
    type IntoIter = std::slice::Iter<'a, T>;
    fn into_iter(self) -> Self::IntoIter {
        self.items.iter()
    }
}

impl<T> IntoIterator for BTreeSet<T> {
    type Item = T;
    type IntoIter = std::vec::IntoIter<T>;
    fn into_iter(self) -> Self::IntoIter {
        self.items.into_iter()
    }
}

impl<T: Ord> FromIterator<T> for BTreeSet<T> {
    fn from_iter<I: IntoIterator<Item = T>>(iter: I) -> Self {
        let mut s = BTreeSet::default();
        for v in iter {
            s.insert(v);
        }
        s
    }
}
