// @anchor crate=abasic-web src=src/lib.rs needs=verif_c19_core_contract
//
// C19: the real JsInterpreter driven by a Rust transliteration of the page script's protocol
// (abasic-web/ts/main.ts: loadAndRunSourceCode 30-44, submitUserInput 66-80, breakAtCurrentLocation
// 82-95, handleCurrentState 120-156), with the core interpreter replaced by its contract.
use super::*;
use abasic_core::verif_c19_core_contract as core_contract;

struct Page {
    imp: JsInterpreter,
    pending_ticks: u8,
}

fn is_idle(s: &JsInterpreterState) -> bool {
    matches!(s, JsInterpreterState::Idle)
}

impl Page {
    /// main.ts handleCurrentState (the recursion on Errored is a loop here; the timer is a pending tick)
    fn handle_current_state(&mut self) {
        let mut guard = 0;
        loop {
            let out = self.imp.take_latest_output(); // showOutput()
            core::mem::forget(out);
            match self.imp.get_state() {
                JsInterpreterState::Idle => return,
                JsInterpreterState::AwaitingInput => return,
                JsInterpreterState::Errored => {
                    let err = self.imp.take_latest_error();
                    assert!(err.is_some(), "c19: Errored state always has an error text to take");
                    core::mem::forget(err);
                    guard += 1;
                    assert!(guard < 3, "c19: the error latch is cleared by take_latest_error");
                }
                JsInterpreterState::Running => {
                    self.imp.continue_evaluating();
                    if self.pending_ticks < 3 {
                        self.pending_ticks += 1; // window.setTimeout(this.handleCurrentState, 5)
                    }
                    return;
                }
            }
        }
    }

    /// main.ts loadAndRunSourceCode for a file with `n` numbered, non-blank lines, then start()
    fn load_and_run(&mut self, n: u8) {
        let mut k = 0;
        while k < n {
            core_contract::set_numbered_line(true);
            self.imp.start_evaluating(core_contract::realiser_line(true));
            core_contract::set_numbered_line(false);
            k += 1;
        }
        self.imp.start_evaluating(core_contract::realiser_run());
        self.handle_current_state();
    }

    fn submit(&mut self) {
        match self.imp.get_state() {
            JsInterpreterState::Idle => self.imp.start_evaluating(core_contract::realiser_line(false)),
            JsInterpreterState::AwaitingInput => self.imp.provide_input(String::new()),
            _ => return, // canProcessUserInput() is false: the page does not submit
        }
        self.handle_current_state();
    }

    fn break_now(&mut self) {
        match self.imp.get_state() {
            JsInterpreterState::AwaitingInput | JsInterpreterState::Running => {
                self.imp.break_at_current_location();
                self.handle_current_state();
            }
            _ => {}
        }
    }

    fn tick(&mut self) {
        if self.pending_ticks > 0 {
            self.pending_ticks -= 1;
            self.handle_current_state();
        }
    }

    fn event(&mut self) {
        let e: u8 = kani::any();
        match e {
            0 => self.submit(),
            1 => self.break_now(),
            _ => self.tick(),
        }
    }
}

macro_rules! page_harness {
    ($name:ident, $load:expr, $events:expr, $mask:expr) => {
        #[kani::proof]
        #[kani::unwind(6)]
        #[kani::stub(abasic_core::Interpreter::start_evaluating, abasic_core::verif_c19_core_contract::contract_start_evaluating)]
        #[kani::stub(abasic_core::Interpreter::continue_evaluating, abasic_core::verif_c19_core_contract::contract_continue_evaluating)]
        #[kani::stub(abasic_core::Interpreter::provide_input, abasic_core::verif_c19_core_contract::contract_provide_input)]
        #[kani::stub(abasic_core::Interpreter::break_at_current_location, abasic_core::verif_c19_core_contract::contract_break_at_current_location)]
        #[kani::stub(<abasic_core::TracedInterpreterError as std::fmt::Display>::fmt, abasic_core::verif_c19_core_contract::contract_error_display)]
        #[kani::stub(<abasic_core::InterpreterOutput as std::fmt::Display>::fmt, abasic_core::verif_c19_core_contract::contract_output_display)]
        #[kani::stub(abasic_core::TracedInterpreterError::get_line_with_pointer_caret, abasic_core::verif_c19_core_contract::contract_caret)]
        #[kani::stub(std::backtrace::Backtrace::capture, abasic_core::verif_c19_core_contract::contract_backtrace_capture)]
        fn $name() {
            core_contract::set_fail_mask($mask);
            let mut page = Page { imp: JsInterpreter::default(), pending_ticks: 0 };
            if $load > 0 {
                page.load_and_run($load - 1);
            } else {
                page.handle_current_state(); // start()
            }
            let mut k = 0;
            while k < $events {
                page.event();
                k += 1;
            }
            // whatever happened, the adapter answers get_state without trapping
            let s = page.imp.get_state();
            kani::cover!(is_idle(&s) || !is_idle(&s), "reached_end");
            core::mem::forget(page);
        }
    };
}

// @verif prop=C19 tier=quick timeout=1500 mem=10000 cost=250 unwind=6 clause="interactive protocol, 1 page event(s) from {submit, break, tick}; core calls failing: mask 0b0; no adapter assertion / panic arm reachable whatever state the core reaches"
// @verif sample="start(); 1 event(s), each any of submit/break/tick; k-th core call fails iff bit k of 0b0; successful calls reach any state the contract allows" bounds="1 event(s); core by contract"
page_harness!(c19_interactive_1_events_mask0, 0, 1, 0);

// @verif prop=C19 tier=quick timeout=1500 mem=10000 cost=250 unwind=6 clause="interactive protocol, 1 page event(s) from {submit, break, tick}; core calls failing: mask 0b1; no adapter assertion / panic arm reachable whatever state the core reaches"
// @verif sample="start(); 1 event(s), each any of submit/break/tick; k-th core call fails iff bit k of 0b1; successful calls reach any state the contract allows" bounds="1 event(s); core by contract"
page_harness!(c19_interactive_1_events_mask1, 0, 1, 1);

// @verif prop=C19 tier=quick timeout=1500 mem=10000 cost=250 unwind=6 clause="interactive protocol, 1 page event(s) from {submit, break, tick}; core calls failing: mask 0b10; no adapter assertion / panic arm reachable whatever state the core reaches"
// @verif sample="start(); 1 event(s), each any of submit/break/tick; k-th core call fails iff bit k of 0b10; successful calls reach any state the contract allows" bounds="1 event(s); core by contract"
page_harness!(c19_interactive_1_events_mask2, 0, 1, 2);

// @verif prop=C19 tier=quick timeout=1500 mem=10000 cost=250 unwind=6 clause="interactive protocol, 1 page event(s) from {submit, break, tick}; core calls failing: mask 0b11; no adapter assertion / panic arm reachable whatever state the core reaches"
// @verif sample="start(); 1 event(s), each any of submit/break/tick; k-th core call fails iff bit k of 0b11; successful calls reach any state the contract allows" bounds="1 event(s); core by contract"
page_harness!(c19_interactive_1_events_mask3, 0, 1, 3);

// @verif prop=C19 tier=thorough timeout=1500 mem=10000 cost=250 unwind=6 clause="interactive protocol, 2 page event(s) from {submit, break, tick}; core calls failing: mask 0b0; no adapter assertion / panic arm reachable whatever state the core reaches"
// @verif sample="start(); 2 event(s), each any of submit/break/tick; k-th core call fails iff bit k of 0b0; successful calls reach any state the contract allows" bounds="2 event(s); core by contract"
page_harness!(c19_interactive_2_events_mask0, 0, 2, 0);

// @verif prop=C19 tier=thorough timeout=1500 mem=10000 cost=250 unwind=6 clause="interactive protocol, 2 page event(s) from {submit, break, tick}; core calls failing: mask 0b1; no adapter assertion / panic arm reachable whatever state the core reaches"
// @verif sample="start(); 2 event(s), each any of submit/break/tick; k-th core call fails iff bit k of 0b1; successful calls reach any state the contract allows" bounds="2 event(s); core by contract"
page_harness!(c19_interactive_2_events_mask1, 0, 2, 1);

// @verif prop=C19 tier=thorough timeout=1500 mem=10000 cost=250 unwind=6 clause="interactive protocol, 2 page event(s) from {submit, break, tick}; core calls failing: mask 0b10; no adapter assertion / panic arm reachable whatever state the core reaches"
// @verif sample="start(); 2 event(s), each any of submit/break/tick; k-th core call fails iff bit k of 0b10; successful calls reach any state the contract allows" bounds="2 event(s); core by contract"
page_harness!(c19_interactive_2_events_mask2, 0, 2, 2);

// @verif prop=C19 tier=thorough timeout=1500 mem=10000 cost=250 unwind=6 clause="interactive protocol, 2 page event(s) from {submit, break, tick}; core calls failing: mask 0b11; no adapter assertion / panic arm reachable whatever state the core reaches"
// @verif sample="start(); 2 event(s), each any of submit/break/tick; k-th core call fails iff bit k of 0b11; successful calls reach any state the contract allows" bounds="2 event(s); core by contract"
page_harness!(c19_interactive_2_events_mask3, 0, 2, 3);

// @verif prop=C19 tier=thorough timeout=1500 mem=10000 cost=250 unwind=6 clause="interactive protocol, 2 page event(s) from {submit, break, tick}; core calls failing: mask 0b100; no adapter assertion / panic arm reachable whatever state the core reaches"
// @verif sample="start(); 2 event(s), each any of submit/break/tick; k-th core call fails iff bit k of 0b100; successful calls reach any state the contract allows" bounds="2 event(s); core by contract"
page_harness!(c19_interactive_2_events_mask4, 0, 2, 4);

// @verif prop=C19 tier=thorough timeout=1500 mem=10000 cost=250 unwind=6 clause="interactive protocol, 2 page event(s) from {submit, break, tick}; core calls failing: mask 0b101; no adapter assertion / panic arm reachable whatever state the core reaches"
// @verif sample="start(); 2 event(s), each any of submit/break/tick; k-th core call fails iff bit k of 0b101; successful calls reach any state the contract allows" bounds="2 event(s); core by contract"
page_harness!(c19_interactive_2_events_mask5, 0, 2, 5);

// @verif prop=C19 tier=thorough timeout=1500 mem=10000 cost=250 unwind=6 clause="interactive protocol, 2 page event(s) from {submit, break, tick}; core calls failing: mask 0b110; no adapter assertion / panic arm reachable whatever state the core reaches"
// @verif sample="start(); 2 event(s), each any of submit/break/tick; k-th core call fails iff bit k of 0b110; successful calls reach any state the contract allows" bounds="2 event(s); core by contract"
page_harness!(c19_interactive_2_events_mask6, 0, 2, 6);

// @verif prop=C19 tier=thorough timeout=1500 mem=10000 cost=250 unwind=6 clause="interactive protocol, 2 page event(s) from {submit, break, tick}; core calls failing: mask 0b111; no adapter assertion / panic arm reachable whatever state the core reaches"
// @verif sample="start(); 2 event(s), each any of submit/break/tick; k-th core call fails iff bit k of 0b111; successful calls reach any state the contract allows" bounds="2 event(s); core by contract"
page_harness!(c19_interactive_2_events_mask7, 0, 2, 7);

// @verif prop=C19 tier=quick timeout=1500 mem=10000 cost=250 unwind=6 clause="start-up loader: 1 numbered line(s) submitted one by one, then RUN, then the state handler; core calls failing: mask 0b0; no adapter assertion may trip"
// @verif sample="loadAndRunSourceCode(file with 1 numbered line(s)); start(); k-th core call fails iff bit k of 0b0" bounds="1 program line(s) + RUN; core by contract"
page_harness!(c19_loader_1_lines_mask0, 2, 0, 0);

// @verif prop=C19 tier=quick timeout=1500 mem=10000 cost=250 unwind=6 clause="start-up loader: 1 numbered line(s) submitted one by one, then RUN, then the state handler; core calls failing: mask 0b1; no adapter assertion may trip"
// @verif sample="loadAndRunSourceCode(file with 1 numbered line(s)); start(); k-th core call fails iff bit k of 0b1" bounds="1 program line(s) + RUN; core by contract"
page_harness!(c19_loader_1_lines_mask1, 2, 0, 1);

// @verif prop=C19 tier=quick timeout=1500 mem=10000 cost=250 unwind=6 clause="start-up loader: 1 numbered line(s) submitted one by one, then RUN, then the state handler; core calls failing: mask 0b10; no adapter assertion may trip"
// @verif sample="loadAndRunSourceCode(file with 1 numbered line(s)); start(); k-th core call fails iff bit k of 0b10" bounds="1 program line(s) + RUN; core by contract"
page_harness!(c19_loader_1_lines_mask2, 2, 0, 2);

// @verif prop=C19 tier=quick timeout=1500 mem=10000 cost=250 unwind=6 clause="start-up loader: 1 numbered line(s) submitted one by one, then RUN, then the state handler; core calls failing: mask 0b11; no adapter assertion may trip"
// @verif sample="loadAndRunSourceCode(file with 1 numbered line(s)); start(); k-th core call fails iff bit k of 0b11" bounds="1 program line(s) + RUN; core by contract"
page_harness!(c19_loader_1_lines_mask3, 2, 0, 3);

// @verif prop=C19 tier=quick timeout=1500 mem=10000 cost=250 unwind=6 clause="start-up loader: 2 numbered line(s) submitted one by one, then RUN, then the state handler; core calls failing: mask 0b0; no adapter assertion may trip"
// @verif sample="loadAndRunSourceCode(file with 2 numbered line(s)); start(); k-th core call fails iff bit k of 0b0" bounds="2 program line(s) + RUN; core by contract"
page_harness!(c19_loader_2_lines_mask0, 3, 0, 0);

// @verif prop=C19 tier=quick timeout=1500 mem=10000 cost=250 unwind=6 clause="start-up loader: 2 numbered line(s) submitted one by one, then RUN, then the state handler; core calls failing: mask 0b1; no adapter assertion may trip"
// @verif sample="loadAndRunSourceCode(file with 2 numbered line(s)); start(); k-th core call fails iff bit k of 0b1" bounds="2 program line(s) + RUN; core by contract"
page_harness!(c19_loader_2_lines_mask1, 3, 0, 1);

// @verif prop=C19 tier=quick timeout=1500 mem=10000 cost=250 unwind=6 clause="start-up loader: 2 numbered line(s) submitted one by one, then RUN, then the state handler; core calls failing: mask 0b10; no adapter assertion may trip"
// @verif sample="loadAndRunSourceCode(file with 2 numbered line(s)); start(); k-th core call fails iff bit k of 0b10" bounds="2 program line(s) + RUN; core by contract"
page_harness!(c19_loader_2_lines_mask2, 3, 0, 2);

// @verif prop=C19 tier=thorough timeout=1500 mem=10000 cost=250 unwind=6 clause="start-up loader: 2 numbered line(s) submitted one by one, then RUN, then the state handler; core calls failing: mask 0b11; no adapter assertion may trip"
// @verif sample="loadAndRunSourceCode(file with 2 numbered line(s)); start(); k-th core call fails iff bit k of 0b11" bounds="2 program line(s) + RUN; core by contract"
page_harness!(c19_loader_2_lines_mask3, 3, 0, 3);

// @verif prop=C19 tier=thorough timeout=1500 mem=10000 cost=250 unwind=6 clause="start-up loader: 2 numbered line(s) submitted one by one, then RUN, then the state handler; core calls failing: mask 0b100; no adapter assertion may trip"
// @verif sample="loadAndRunSourceCode(file with 2 numbered line(s)); start(); k-th core call fails iff bit k of 0b100" bounds="2 program line(s) + RUN; core by contract"
page_harness!(c19_loader_2_lines_mask4, 3, 0, 4);

// @verif prop=C19 tier=thorough timeout=1500 mem=10000 cost=250 unwind=6 clause="start-up loader: 2 numbered line(s) submitted one by one, then RUN, then the state handler; core calls failing: mask 0b101; no adapter assertion may trip"
// @verif sample="loadAndRunSourceCode(file with 2 numbered line(s)); start(); k-th core call fails iff bit k of 0b101" bounds="2 program line(s) + RUN; core by contract"
page_harness!(c19_loader_2_lines_mask5, 3, 0, 5);

// @verif prop=C19 tier=thorough timeout=1500 mem=10000 cost=250 unwind=6 clause="start-up loader: 2 numbered line(s) submitted one by one, then RUN, then the state handler; core calls failing: mask 0b110; no adapter assertion may trip"
// @verif sample="loadAndRunSourceCode(file with 2 numbered line(s)); start(); k-th core call fails iff bit k of 0b110" bounds="2 program line(s) + RUN; core by contract"
page_harness!(c19_loader_2_lines_mask6, 3, 0, 6);

// @verif prop=C19 tier=thorough timeout=1500 mem=10000 cost=250 unwind=6 clause="start-up loader: 2 numbered line(s) submitted one by one, then RUN, then the state handler; core calls failing: mask 0b111; no adapter assertion may trip"
// @verif sample="loadAndRunSourceCode(file with 2 numbered line(s)); start(); k-th core call fails iff bit k of 0b111" bounds="2 program line(s) + RUN; core by contract"
page_harness!(c19_loader_2_lines_mask7, 3, 0, 7);

// @verif prop=C19 tier=quick timeout=600 mem=6000 cost=120 unwind=6 clause="NEW yields an interpreter indistinguishable from a freshly created one; get_state never reports the transient state"
// @verif sample="used interpreter; start_evaluating(NEW) -> core requests a new interpreter" bounds="one call"
#[kani::proof]
#[kani::unwind(6)]
#[kani::stub(abasic_core::Interpreter::start_evaluating, abasic_core::verif_c19_core_contract::contract_start_evaluating)]
#[kani::stub(<abasic_core::TracedInterpreterError as std::fmt::Display>::fmt, abasic_core::verif_c19_core_contract::contract_error_display)]
#[kani::stub(abasic_core::TracedInterpreterError::get_line_with_pointer_caret, abasic_core::verif_c19_core_contract::contract_caret)]
#[kani::stub(std::backtrace::Backtrace::capture, abasic_core::verif_c19_core_contract::contract_backtrace_capture)]
fn c19_new_replaces_interpreter() {
    let mut js = JsInterpreter::default();
    core_contract::mark_used(&mut js.interpreter);
    js.start_evaluating(String::from("NEW"));
    let s = js.get_state(); // must not hit the panic arm
    assert!(is_idle(&s) && js.latest_error.is_none(), "c19: after NEW the adapter is idle without an error");
    assert!(core_contract::looks_fresh(&js.interpreter), "c19: NEW yields an interpreter indistinguishable from a freshly created one");
    kani::cover!(true, "reached_end");
    core::mem::forget(js);
}

// @verif prop=C19 tier=quick timeout=600 mem=6000 cost=60 clause="output records keep their order and their type mapping (6 kinds, exhaustive)"
// @verif sample="convert_interpreter_output_for_js for each InterpreterOutput kind" bounds="6 kinds"
#[kani::proof]
#[kani::unwind(4)]
#[kani::stub(<abasic_core::InterpreterOutput as std::fmt::Display>::fmt, abasic_core::verif_c19_core_contract::contract_output_display)]
fn c19_output_type_mapping() {
    let line: Option<u64> = kani::any();
    let n: u64 = kani::any();
    let o1 = convert_interpreter_output_for_js(InterpreterOutput::Print(String::new()));
    assert!(matches!(o1.output_type, JsInterpreterOutputType::Print));
    let o2 = convert_interpreter_output_for_js(InterpreterOutput::Break(line));
    assert!(matches!(o2.output_type, JsInterpreterOutputType::Break));
    let o3 = convert_interpreter_output_for_js(InterpreterOutput::Warning(String::new(), line));
    assert!(matches!(o3.output_type, JsInterpreterOutputType::Warning));
    let o4 = convert_interpreter_output_for_js(InterpreterOutput::Trace(n));
    assert!(matches!(o4.output_type, JsInterpreterOutputType::Trace));
    let o5 = convert_interpreter_output_for_js(InterpreterOutput::ExtraIgnored);
    assert!(matches!(o5.output_type, JsInterpreterOutputType::ExtraIgnored));
    let o6 = convert_interpreter_output_for_js(InterpreterOutput::Reenter);
    assert!(matches!(o6.output_type, JsInterpreterOutputType::Reenter));
    kani::cover!(true, "reached_end");
    core::mem::forget((o1, o2, o3, o4, o5, o6));
}
