// @anchor crate=abasic-core src=src/interpreter.rs needs=verif_support
//
// C03/C16/C01: subscript conversion and implicit arrays through the real evaluator / Arrays API.
use super::*;
use crate::verif_support::*;
use crate::InterpreterError;

// @verif prop=C03,C01,C16 tier=quick timeout=600 mem=4000 cost=60 clause="subscript conversion: any f64 is truncated toward zero (saturating, NaN->0); negative -> ILLEGAL QUANTITY; a string subscript -> TYPE MISMATCH; never a panic"
// @verif sample="tokens ( k ) with k any f64 (NaN, +-inf, 2^63, -0.5, 1e300); evaluate_array_index" bounds="1 subscript; all f64"
#[kani::proof]
#[kani::unwind(8)]
#[kani::stub(std::backtrace::Backtrace::capture, crate::verif_support::stub_backtrace_capture)]
#[kani::stub(crate::string_manager::StringManager::gc, crate::verif_support::stub_gc)]
#[kani::stub(alloc::fmt::format, crate::verif_support::stub_format)]
#[kani::stub(<crate::symbol::Symbol as std::fmt::Display>::fmt, crate::verif_support::stub_symbol_display)]
fn c03_subscript_conversion() {
    let k: f64 = kani::any();
    let mut interp = Interpreter::default();
    interp.program.set_and_goto_immediate_line(vec![Token::LeftParen, tnum(k), Token::RightParen]);
    let res = ExpressionEvaluator::new(&mut interp).evaluate_array_index();
    // reference: Rust's saturating float->int conversion is "truncate toward zero, NaN -> 0"
    let t: i128 = if k.is_nan() { 0 } else if k >= 9223372036854775807.0 { i64::MAX as i128 } else if k <= -9223372036854775808.0 { i64::MIN as i128 } else { (k.trunc()) as i128 };
    match &res {
        Ok(v) => {
            assert!(t >= 0, "c03: a negative subscript must be refused");
            assert!(v.len() == 1 && v[0] as i128 == t, "c03: subscript is the value truncated toward zero");
            kani::cover!(k > 1.0e19, "reached_saturated_subscript");
            kani::cover!(k.is_nan(), "reached_nan_subscript");
        }
        Err(e) => {
            assert!(t < 0, "c03: a non-negative subscript must be accepted");
            assert!(e.error == InterpreterError::IllegalQuantity, "c03: negative subscript is ILLEGAL QUANTITY");
            kani::cover!(true, "reached_negative_subscript");
        }
    }
    core::mem::forget(res);
    core::mem::forget(interp);
}

// @verif prop=C03,C16,C01 tier=quick timeout=600 mem=4000 cost=60 clause="implicit arrays: created on first touch with indices 0..10 per dimension; unset cells read 0; stored cell reads back; out-of-range -> BAD SUBSCRIPT; kind follows the name suffix"
// @verif sample="Arrays::set_value_at_index(A,[i],v) then get_value_at_index(A,[j]); i,j any usize; v any non-NaN f64" bounds="1 dimension; all usize subscripts"
#[kani::proof]
#[kani::unwind(14)]
#[kani::stub(std::backtrace::Backtrace::capture, crate::verif_support::stub_backtrace_capture)]
fn c03_implicit_array_1d() {
    let i: usize = kani::any();
    let j: usize = kani::any();
    let v: f64 = kani::any();
    kani::assume(!v.is_nan());
    let mut arrays = crate::arrays::Arrays::default();
    let name = sym("A");
    let s = arrays.set_value_at_index(&name, &vec![i], Value::Number(v));
    assert!(s.is_ok() == (i <= 10), "c03: implicit arrays accept exactly the indices 0..10");
    if let Err(e) = &s {
        assert!(e.error == InterpreterError::BadSubscript, "c03: index above 10 is BAD SUBSCRIPT");
    }
    assert!(arrays.has(&name), "c03: touching an array creates it");
    let g = arrays.get_value_at_index(&name, &vec![j]);
    match &g {
        Ok(Value::Number(x)) => {
            assert!(j <= 10);
            assert!(*x == if i == j { v } else { 0.0 }, "c03: stored cell reads back; unset cells read 0");
        }
        Ok(Value::String(_)) => panic!("c16: a numeric array must not hold strings"),
        Err(e) => {
            assert!(j > 10 && e.error == InterpreterError::BadSubscript);
        }
    }
    // a string stored under a numeric name is refused and changes nothing
    let bad = arrays.set_value_at_index(&name, &vec![0], Value::String(std::rc::Rc::new(String::from("S"))));
    assert!(matches!(&bad, Err(e) if e.error == InterpreterError::TypeMismatch), "c16: a string cannot be stored in a numeric array");
    kani::cover!(i <= 10 && j <= 10 && i != j, "reached_two_cells");
    core::mem::forget(s);
    core::mem::forget(g);
    core::mem::forget(bad);
    core::mem::forget(arrays);
}

// @verif prop=C03,C16 tier=quick timeout=600 mem=4000 cost=60 clause="implicit 2-D and 3-D arrays have 11 cells per dimension; unset cells read 0"
// @verif sample="get_value_at_index(B,[a,b]) and (C,[a,b,c]) on absent arrays, subscripts any usize" bounds="2 and 3 dimensions; reads only"
#[kani::proof]
#[kani::unwind(14)]
#[kani::stub(std::backtrace::Backtrace::capture, crate::verif_support::stub_backtrace_capture)]
fn c03_implicit_array_nd_defaults() {
    let a: usize = kani::any();
    let b: usize = kani::any();
    let c: usize = kani::any();
    let mut arrays = crate::arrays::Arrays::default();
    let g2 = arrays.get_value_at_index(&sym("B"), &vec![a, b]);
    match &g2 {
        Ok(Value::Number(x)) => assert!(a <= 10 && b <= 10 && *x == 0.0, "c03: unset numeric cell of an implicit 2-D array reads 0"),
        Ok(Value::String(_)) => panic!("c16: a numeric array must not hold strings"),
        Err(e) => assert!((a > 10 || b > 10) && e.error == InterpreterError::BadSubscript),
    }
    let g3 = arrays.get_value_at_index(&sym("C"), &vec![a, b, c]);
    match &g3 {
        Ok(Value::Number(x)) => assert!(a <= 10 && b <= 10 && c <= 10 && *x == 0.0, "c03: unset numeric cell reads 0"),
        Ok(Value::String(_)) => panic!("c16: a numeric array must not hold strings"),
        Err(e) => assert!((a > 10 || b > 10 || c > 10) && e.error == InterpreterError::BadSubscript),
    }
    kani::cover!(a == 10 && b == 10 && c == 10, "reached_last_cell");
    core::mem::forget(g2);
    core::mem::forget(g3);
    core::mem::forget(arrays);
}

// @verif prop=C16,C03,C01 tier=quick timeout=900 mem=10000 cost=200 clause="an implicit array with 4 subscripts would have 11^4 = 14641 cells: touching it is OUT OF MEMORY (ARRAY TOO LARGE) and creates nothing, for reads and writes alike"
// @verif sample="get_value_at_index(D,[1,0,10,2]) on an absent array" bounds="4 subscripts (concrete)"
#[kani::proof]
#[kani::unwind(14)]
#[kani::stub(std::backtrace::Backtrace::capture, crate::verif_support::stub_backtrace_capture)]
fn c16_implicit_array_4d_is_too_large() {
    // the verdict does not depend on the subscripts (the array is refused before any is looked at)
    let idx: [usize; 4] = [1, 0, 10, 2];
    let mut arrays = crate::arrays::Arrays::default();
    let g = arrays.get_value_at_index(&sym("D"), &vec![idx[0], idx[1], idx[2], idx[3]]);
    assert!(matches!(&g, Err(e) if e.error == InterpreterError::OutOfMemory(crate::OutOfMemoryError::ArrayTooLarge)), "c16: an implicit 4-D array exceeds the 10000-cell cap");
    assert!(!arrays.has(&sym("D")), "c16: a refused array is not created");
    kani::cover!(true, "reached_end");
    core::mem::forget(g);
    core::mem::forget(arrays);
}
