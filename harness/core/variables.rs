// @anchor crate=abasic-core src=src/variables.rs needs=verif_support
//
// C16: the validated setter is the only way into the variable map (private tuple field) and it
// refuses a value whose kind does not match the name suffix -- for a fresh name AND for a name that
// already holds a value -- leaving the map unchanged.
use super::*;
use crate::verif_support::*;

fn val(kind_string: bool, x: f64) -> Value {
    if kind_string {
        Value::String(std::rc::Rc::new(String::from("S")))
    } else {
        Value::Number(x)
    }
}

// @verif prop=C16 tier=quick timeout=600 mem=6000 cost=60 clause="Variables::set (name without `$`): Ok iff the value kind matches the `$` suffix, for a fresh and for an existing name; a refused write leaves the stored value untouched; reads of absent names give 0 / empty string"
// @verif sample="name in {A, A$}; first write kind any; second write kind any, value any f64" bounds="two writes to one name"
#[kani::proof]
#[kani::unwind(6)]
#[kani::stub(std::backtrace::Backtrace::capture, crate::verif_support::stub_backtrace_capture)]
fn c16_variables_typed_setter_numeric_name() {
    typed_setter(false);
}

// @verif prop=C16 tier=quick timeout=600 mem=6000 cost=60 clause="Variables::set on a `$` name: Ok iff the value is a string, for a fresh and for an existing name; a refused write leaves the stored value untouched"
// @verif sample="name A$; first write kind any; second write kind any" bounds="two writes to one name"
#[kani::proof]
#[kani::unwind(6)]
#[kani::stub(std::backtrace::Backtrace::capture, crate::verif_support::stub_backtrace_capture)]
fn c16_variables_typed_setter_string_name() {
    typed_setter(true);
}

fn typed_setter(dollar: bool) {
    let k1: bool = kani::any();
    let k2: bool = kani::any();
    let x1: f64 = kani::any();
    let x2: f64 = kani::any();
    kani::assume(!x1.is_nan() && !x2.is_nan());
    let name = if dollar { "A$" } else { "A" };
    let mut vars = Variables::default();
    match vars.get(&sym(name)) {
        Value::Number(n) => assert!(!dollar && n == 0.0, "c03: an unassigned numeric variable reads 0"),
        Value::String(s) => assert!(dollar && s.is_empty(), "c03: an unassigned string variable reads the empty string"),
    }
    let r1 = vars.set(sym(name), val(k1, x1));
    assert!(r1.is_ok() == (k1 == dollar), "c16: a first write is accepted iff the kind matches the name suffix");
    assert!(vars.has(&sym(name)) == r1.is_ok(), "c16: a refused write stores nothing");
    let r2 = vars.set(sym(name), val(k2, x2));
    assert!(r2.is_ok() == (k2 == dollar), "c16: a write to an existing name is accepted iff the kind matches the name suffix");
    if vars.has(&sym(name)) {
        match vars.get(&sym(name)) {
            Value::Number(n) => {
                assert!(!dollar, "c16: a $ name never holds a number");
                assert!(n == if r2.is_ok() { x2 } else { x1 }, "c16: a refused write leaves the old value");
            }
            Value::String(_) => assert!(dollar, "c16: a name without $ never holds a string"),
        }
    }
    kani::cover!(r1.is_ok() && !r2.is_ok(), "reached_refused_overwrite");
    core::mem::forget(r1);
    core::mem::forget(r2);
    core::mem::forget(vars);
}
