// @anchor crate=abasic-core src=src/analyzer/source_file_analyzer.rs needs=verif_support,verif_paccess,verif_raccess,verif_isupport
//
// C14 (canonical spelling of payload-free tokens re-tokenizes to the same token) and the core clause
// of C15 (a program loaded through the analyzer equals the program typed in line by line).
// Concrete structure AND concrete text: these are symbolic *executions* of the real tokenizer /
// analyzer / prompt path on fixed inputs (no solver-chosen data); they are witnesses, stated as such.
use super::*;
use crate::interpreter::verif_isupport::*;
use crate::tokenizer::{Token, Tokenizer};

fn roundtrip(t: Token) {
    let text = t.to_string();
    let mut sm = StringManager::default();
    let res = Tokenizer::new(text.as_str(), &mut sm).remaining_tokens();
    match &res {
        Ok(tokens) => assert!(tokens.len() == 1 && tokens[0] == t, "c14: the canonical spelling of a token re-tokenizes to exactly that token"),
        Err(_) => panic!("c14: the canonical spelling of a token must tokenize"),
    }
    core::mem::forget(res);
    core::mem::forget(sm);
    core::mem::forget(text);
}

macro_rules! spelling_harness {
    ($name:ident, $($tok:expr),+) => {
        #[kani::proof]
        #[kani::unwind(12)]
        #[kani::stub(crate::string_manager::StringManager::gc, crate::verif_support::stub_gc)]
        fn $name() {
            $(roundtrip($tok);)+
            kani::cover!(true, "reached_end");
        }
    };
}

// @verif prop=C14 tier=thorough timeout=3000 mem=24000 cost=900 concrete=1 unwind=12 clause="canonical spelling (real Display) of a payload-free token re-tokenizes through the real tokenizer to exactly that token" sample="DIM LET PRINT INPUT GOTO" bounds="5 tokens, concrete"
spelling_harness!(c14_spelling_kw1, Token::Dim, Token::Let, Token::Print, Token::Input, Token::Goto);

// @verif prop=C14 tier=thorough timeout=3000 mem=24000 cost=900 concrete=1 unwind=12 clause="canonical spelling (real Display) of a payload-free token re-tokenizes through the real tokenizer to exactly that token" sample="GOSUB RETURN IF THEN ELSE" bounds="5 tokens, concrete"
spelling_harness!(c14_spelling_kw2, Token::Gosub, Token::Return, Token::If, Token::Then, Token::Else);

// @verif prop=C14 tier=thorough timeout=3000 mem=24000 cost=900 concrete=1 unwind=12 clause="canonical spelling (real Display) of a payload-free token re-tokenizes through the real tokenizer to exactly that token" sample="END STOP FOR TO STEP" bounds="5 tokens, concrete"
spelling_harness!(c14_spelling_kw3, Token::End, Token::Stop, Token::For, Token::To, Token::Step);

// @verif prop=C14 tier=thorough timeout=3000 mem=24000 cost=900 concrete=1 unwind=12 clause="canonical spelling (real Display) of a payload-free token re-tokenizes through the real tokenizer to exactly that token" sample="NEXT READ RESTORE DEF" bounds="4 tokens, concrete"
spelling_harness!(c14_spelling_kw4, Token::Next, Token::Read, Token::Restore, Token::Def);

// @verif prop=C14 tier=thorough timeout=3000 mem=24000 cost=900 concrete=1 unwind=12 clause="canonical spelling (real Display) of a payload-free token re-tokenizes through the real tokenizer to exactly that token" sample=": ; , ? (" bounds="5 tokens, concrete"
spelling_harness!(c14_spelling_op1, Token::Colon, Token::Semicolon, Token::Comma, Token::QuestionMark, Token::LeftParen);

// @verif prop=C14 tier=thorough timeout=3000 mem=24000 cost=900 concrete=1 unwind=12 clause="canonical spelling (real Display) of a payload-free token re-tokenizes through the real tokenizer to exactly that token" sample=") + - * /" bounds="5 tokens, concrete"
spelling_harness!(c14_spelling_op2, Token::RightParen, Token::Plus, Token::Minus, Token::Multiply, Token::Divide);

// @verif prop=C14 tier=thorough timeout=3000 mem=24000 cost=900 concrete=1 unwind=12 clause="canonical spelling (real Display) of a payload-free token re-tokenizes through the real tokenizer to exactly that token" sample="^ = <> < <=" bounds="5 tokens, concrete"
spelling_harness!(c14_spelling_op3, Token::Caret, Token::Equals, Token::NotEquals, Token::LessThan, Token::LessThanOrEqualTo);

// @verif prop=C14 tier=thorough timeout=3000 mem=24000 cost=900 concrete=1 unwind=12 clause="canonical spelling (real Display) of a payload-free token re-tokenizes through the real tokenizer to exactly that token" sample="> >= AND OR NOT" bounds="5 tokens, concrete"
spelling_harness!(c14_spelling_op4, Token::GreaterThan, Token::GreaterThanOrEqualTo, Token::And, Token::Or, Token::Not);

// @verif prop=C15 tier=quick timeout=1800 mem=10000 cost=500 concrete=1 clause="core clause of C15: a source file loaded through the analyzer yields the same stored program as entering its lines at the prompt, with runtime state reset"
// @verif sample="file: 20 X = 1 / 10 GOTO 20 ; prompt: the same two lines through start_evaluating" bounds="this 2-line file (concrete text)"
#[kani::proof]
#[kani::unwind(12)]
#[kani::stub(std::backtrace::Backtrace::capture, crate::verif_support::stub_backtrace_capture)]
#[kani::stub(crate::string_manager::StringManager::gc, crate::verif_support::stub_gc)]
#[kani::stub(alloc::fmt::format, crate::verif_support::stub_format)]
#[kani::stub(<crate::symbol::Symbol as std::fmt::Display>::fmt, crate::verif_support::stub_symbol_display)]
fn c15_load_equals_typing() {
    let analyzer = SourceFileAnalyzer::analyze_lines(vec![String::from("20 X = 1"), String::from("10 GOTO 20")]);
    let mut loaded = analyzer.into_interpreter();
    let mut typed = Interpreter::default();
    assert!(cmd(&mut typed, "20 X = 1").is_none());
    assert!(cmd(&mut typed, "10 GOTO 20").is_none());
    assert!(st(&loaded) == ST_IDLE && st(&typed) == ST_IDLE);
    assert!(pa::stack_len(&loaded.program) == 0 && pa::loop_len(&loaded.program) == 0 && pa::functions_len(&loaded.program) == 0
        && pa::breakpoint(&loaded.program).is_none() && !pa::data_iterator_started(&loaded.program), "c15: a loaded program starts with clean runtime state");
    assert!(pa::has_line(&loaded.program, 10) && pa::has_line(&loaded.program, 20) && pa::has_line(&typed.program, 10) && pa::has_line(&typed.program, 20));
    assert!(pa::same_lines(&loaded.program, &typed.program), "c15: loading a file stores the same token lines as typing it in");
    kani::cover!(true, "reached_end");
    core::mem::forget(loaded);
    core::mem::forget(typed);
}
