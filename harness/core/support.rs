// @anchor crate=abasic-core src=src/lib.rs
//
// Shared helpers for the interpreter-level harnesses: stubs (DESIGN.md 2.3) and token builders.
#![allow(dead_code)]
use std::rc::Rc;

use crate::data::DataElement;
use crate::symbol::Symbol;
use crate::tokenizer::Token;

// ---- stubs -------------------------------------------------------------------------------

/// std::backtrace::Backtrace::capture reads the environment through FFI.
pub fn stub_backtrace_capture() -> std::backtrace::Backtrace {
    std::backtrace::Backtrace::disabled()
}

/// StringManager::gc only affects the STATS figure.
pub fn stub_gc(_sm: &mut crate::string_manager::StringManager) {}

/// `format!` – number rendering is std's; the claims observe values and record kinds.
pub fn stub_format(_args: std::fmt::Arguments<'_>) -> String {
    String::new()
}

pub fn stub_f64_to_string(_x: &f64) -> String {
    String::new()
}

// ---- token builders ------------------------------------------------------------------------

pub fn sym(name: &str) -> Symbol {
    Rc::new(String::from(name)).into()
}

pub fn tsym(name: &str) -> Token {
    Token::Symbol(sym(name))
}

pub fn tnum(x: f64) -> Token {
    Token::NumericLiteral(x)
}

pub fn tstr(s: &str) -> Token {
    Token::StringLiteral(Rc::new(String::from(s)))
}

pub fn tdata_nums(xs: &[f64]) -> Token {
    let mut v = Vec::new();
    let mut i = 0;
    while i < xs.len() {
        v.push(DataElement::Number(xs[i]));
        i += 1;
    }
    Token::Data(Rc::new(v))
}

/// bit-exact equality on doubles with NaN == NaN (any payload)
pub fn same_f64(a: f64, b: f64) -> bool {
    (a.is_nan() && b.is_nan()) || a.to_bits() == b.to_bits() || (a == b && a != 0.0)
}

// ---- reference fold for expressions (C02, C06) ------------------------------------------------
// Written from the property text; shares no code with expression.rs / operators.rs.

#[derive(Clone, Copy, PartialEq)]
pub enum RV {
    N(f64),
    S(&'static str),
}

#[derive(Clone, Copy, PartialEq)]
pub enum RE {
    TypeMismatch,
    DivisionByZero,
}

pub type RR = Result<RV, RE>;

pub const OP_ADD: u8 = 0;
pub const OP_SUB: u8 = 1;
pub const OP_MUL: u8 = 2;
pub const OP_DIV: u8 = 3;
pub const OP_POW: u8 = 4;
pub const OP_EQ: u8 = 5;
pub const OP_NE: u8 = 6;
pub const OP_LT: u8 = 7;
pub const OP_LE: u8 = 8;
pub const OP_GT: u8 = 9;
pub const OP_GE: u8 = 10;
pub const OP_AND: u8 = 11;
pub const OP_OR: u8 = 12;

pub const UN_PLUS: u8 = 0;
pub const UN_MINUS: u8 = 1;
pub const UN_NOT: u8 = 2;

pub const FN_ABS: u8 = 0;
pub const FN_INT: u8 = 1;

/// `^` is checked for *where* it is applied, not for pow's numerics: both the implementation
/// (through a stub of f64::powf) and the reference use this non-commutative, non-associative marker.
pub fn marker_pow(a: f64, b: f64) -> f64 {
    a * 4.0 + b
}

pub fn stub_powf(a: f64, b: f64) -> f64 {
    marker_pow(a, b)
}

pub fn r_n(x: f64) -> RR {
    Ok(RV::N(x))
}

pub fn r_s(s: &'static str) -> RR {
    Ok(RV::S(s))
}

pub fn r_truth(v: RV) -> bool {
    match v {
        RV::N(x) => x != 0.0,
        RV::S(s) => !s.is_empty(),
    }
}

fn r_bool(b: bool) -> RR {
    Ok(RV::N(if b { 1.0 } else { 0.0 }))
}

fn bytes_cmp(a: &str, b: &str) -> i8 {
    // byte-wise lexicographic order
    let x = a.as_bytes();
    let y = b.as_bytes();
    let mut i = 0;
    loop {
        if i == x.len() && i == y.len() {
            return 0;
        }
        if i == x.len() {
            return -1;
        }
        if i == y.len() {
            return 1;
        }
        if x[i] < y[i] {
            return -1;
        }
        if x[i] > y[i] {
            return 1;
        }
        i += 1;
    }
}

pub fn r_bin(op: u8, l: RR, r: RR) -> RR {
    let l = l?;
    let r = r?;
    match op {
        OP_AND => return r_bool(r_truth(l) && r_truth(r)),
        OP_OR => return r_bool(r_truth(l) || r_truth(r)),
        _ => {}
    }
    match (l, r) {
        (RV::N(a), RV::N(b)) => match op {
            OP_ADD => r_n(a + b),
            OP_SUB => r_n(a - b),
            OP_MUL => r_n(a * b),
            OP_DIV => {
                if b == 0.0 {
                    Err(RE::DivisionByZero)
                } else {
                    r_n(a / b)
                }
            }
            OP_POW => r_n(marker_pow(a, b)),
            OP_EQ => r_bool(a == b),
            OP_NE => r_bool(a != b),
            OP_LT => r_bool(a < b),
            OP_LE => r_bool(a <= b),
            OP_GT => r_bool(a > b),
            _ => r_bool(a >= b),
        },
        (RV::S(a), RV::S(b)) => {
            let c = bytes_cmp(a, b);
            match op {
                OP_EQ => r_bool(c == 0),
                OP_NE => r_bool(c != 0),
                OP_LT => r_bool(c < 0),
                OP_LE => r_bool(c <= 0),
                OP_GT => r_bool(c > 0),
                OP_GE => r_bool(c >= 0),
                _ => Err(RE::TypeMismatch),
            }
        }
        _ => Err(RE::TypeMismatch),
    }
}

/// Unary plus on a string is not specified by the property text (it is not "mixing"); callers
/// never generate it.
pub fn r_un(op: u8, v: RR) -> RR {
    let v = v?;
    match op {
        UN_NOT => r_bool(!r_truth(v)),
        UN_MINUS => match v {
            RV::N(x) => r_n(-x),
            RV::S(_) => Err(RE::TypeMismatch),
        },
        _ => match v {
            RV::N(x) => r_n(x),
            RV::S(_) => Err(RE::TypeMismatch),
        },
    }
}

pub fn r_fn(f: u8, v: RR) -> RR {
    match v? {
        RV::N(x) => r_n(if f == FN_ABS { x.abs() } else { x.floor() }),
        RV::S(_) => Err(RE::TypeMismatch),
    }
}

pub fn pick_num(sel: u8) -> f64 {
    match sel {
        0 => 0.0,
        1 => 1.0,
        2 => 2.0,
        3 => 3.0,
        4 => -1.0,
        5 => 0.5,
        6 => f64::NAN,
        7 => f64::INFINITY,
        _ => -0.0,
    }
}

pub fn pick_str(sel: u8) -> &'static str {
    match sel {
        0 => "",
        1 => "A",
        2 => "B",
        _ => "AB",
    }
}

pub fn value_matches(res: &Result<crate::value::Value, crate::TracedInterpreterError>, expect: RR) -> bool {
    use crate::value::Value;
    use crate::InterpreterError;
    match (res, expect) {
        (Ok(Value::Number(v)), Ok(RV::N(x))) => same_f64(*v, x),
        (Ok(Value::String(s)), Ok(RV::S(t))) => s.as_str().as_bytes() == t.as_bytes(),
        (Err(e), Err(RE::TypeMismatch)) => e.error == InterpreterError::TypeMismatch,
        (Err(e), Err(RE::DivisionByZero)) => e.error == InterpreterError::DivisionByZero,
        _ => false,
    }
}

pub fn stub_symbol_display(_s: &crate::symbol::Symbol, _f: &mut std::fmt::Formatter<'_>) -> std::fmt::Result {
    Ok(())
}

/// A numeric literal whose value is fixed by an assumption instead of being a compile-time constant.
/// CBMC 6.11's simplifier folds `(constant f64) as u64` to 0 (measured: `100.0 as u64 == 100` is
/// UNSATISFIABLE for a constant operand, satisfied for a symbolic one and for `as i64`), so jump
/// targets (`line_number as u64` in GOTO/GOSUB) must not be constants.
pub fn kn(x: f64) -> f64 {
    let v: f64 = kani::any();
    kani::assume(v == x);
    v
}
