// @anchor crate=abasic-core src=src/tokenizer.rs needs=verif_support
//
// C12 / C13 (and the tokenizer clauses of C01): the matchers the tokenizer is a first-match chain
// of, each on a fully symbolic ASCII buffer of N bytes with symbolic length.  Reference functions
// below are written from the property text (blank = space/tab/CR/FF other than newline; letter case
// folded; ranges end right after the last consumed non-blank byte).
use super::*;
use crate::string_manager::StringManager;

const N: usize = 6;

fn is_blank(b: u8) -> bool {
    b == b' ' || b == b'\t' || b == b'\r' || b == 0x0c
}

fn up(b: u8) -> u8 {
    if b >= b'a' && b <= b'z' {
        b - 32
    } else {
        b
    }
}

/// symbolic ASCII text of length <= N
fn any_ascii() -> ([u8; N], usize) {
    let buf: [u8; N] = kani::any();
    let len: usize = kani::any();
    kani::assume(len <= N);
    let mut i = 0;
    while i < N {
        kani::assume(buf[i] < 128);
        i += 1;
    }
    (buf, len)
}

fn as_str(buf: &[u8; N], len: usize) -> &str {
    // ASCII by assumption
    unsafe { std::str::from_utf8_unchecked(&buf[..len]) }
}

/// index just after the k-th (1-based) non-blank byte at or after `from`; None if there are fewer
fn after_kth_nonblank(buf: &[u8; N], len: usize, from: usize, k: usize) -> Option<usize> {
    let mut seen = 0;
    let mut i = from;
    while i < len {
        if !is_blank(buf[i]) {
            seen += 1;
            if seen == k {
                return Some(i + 1);
            }
        }
        i += 1;
    }
    None
}

/// the k-th (0-based) non-blank byte at or after `from`, upper-cased
fn kth_nonblank(buf: &[u8; N], len: usize, from: usize, k: usize) -> Option<u8> {
    let mut seen = 0;
    let mut i = from;
    while i < len {
        if !is_blank(buf[i]) {
            if seen == k {
                return Some(up(buf[i]));
            }
            seen += 1;
        }
        i += 1;
    }
    None
}

// @verif prop=C12,C13,C01 tier=quick timeout=600 mem=4000 cost=30 clause="LineCruncher yields exactly the non-blank bytes in order, each with pos = 1 + its index; blank = ASCII whitespace other than newline"
// @verif sample="buf = any 6 ASCII bytes, len any <= 6" bounds="6 bytes"
#[kani::proof]
#[kani::unwind(8)]
fn c12_cruncher_exact() {
    let (buf, len) = any_ascii();
    let mut c = LineCruncher::new(&buf[..len]);
    let mut k = 1;
    loop {
        let got = c.next();
        let expect = after_kth_nonblank(&buf, len, 0, k);
        match (got, expect) {
            (Some((b, pos)), Some(e)) => {
                assert!(pos == e, "c12 cruncher: pos is one past the byte's index");
                assert!(b == buf[e - 1] && !is_blank(b), "c12 cruncher: yields the non-blank bytes in order");
                assert!(c.pos() == pos);
            }
            (None, None) => {
                assert!(c.pos() == len, "c12 cruncher: exhausting consumes everything");
                break;
            }
            _ => panic!("c12 cruncher: yields exactly the non-blank bytes"),
        }
        k += 1;
    }
    kani::cover!(k == 4 && len == 6, "reached_mixed");
    kani::cover!(len == 6 && buf[2] == b'\n', "reached_newline_is_not_blank");
}

fn check_keyword(kw: &'static str) {
    let (buf, len) = any_ascii();
    let start: usize = kani::any();
    kani::assume(start <= len);
    let mut sm = StringManager::default();
    let mut t = Tokenizer::new(as_str(&buf, len), &mut sm);
    t.index = start;
    let got = t.chomp_keyword(kw);
    // reference: the crunched, upper-cased remaining bytes start with the keyword
    let kb = kw.as_bytes();
    let mut matches = true;
    let mut j = 0;
    while j < kb.len() {
        if kth_nonblank(&buf, len, start, j) != Some(kb[j]) {
            matches = false;
        }
        j += 1;
    }
    assert!(got == matches, "c12 keyword: matches iff the crunched upper-cased text starts with the keyword");
    if got {
        let end = after_kth_nonblank(&buf, len, start, kb.len());
        assert!(Some(t.index) == end, "c13 keyword: the cursor ends right after the keyword's last byte");
        assert!(t.index <= len && !is_blank(buf[t.index - 1]), "c13 keyword: range ends on a non-blank byte inside the line");
    } else {
        assert!(t.index == start, "c13 keyword: a failed match consumes nothing");
    }
    kani::cover!(got && t.index - start > kb.len(), "reached_keyword_with_blanks_inside");
    kani::cover!(got, "reached_match");
    core::mem::forget(t);
    core::mem::forget(sm);
}

macro_rules! kw_harness {
    ($name:ident, $kw:expr) => {
        #[kani::proof]
        #[kani::unwind(8)]
        fn $name() {
            check_keyword($kw);
        }
    };
}

// @verif prop=C12,C13 tier=quick timeout=600 mem=4000 cost=30 clause="keyword matcher (2-letter keywords): verdict and cursor advance are functions of the crunched, upper-cased bytes only" sample="IF / TO / OR on any 6 ASCII bytes from any start" bounds="6 bytes"
#[kani::proof]
#[kani::unwind(8)]
fn c12_keyword_if_to_or() {
    let which: u8 = kani::any();
    match which {
        0 => check_keyword("IF"),
        1 => check_keyword("TO"),
        _ => check_keyword("OR"),
    }
}

// @verif prop=C12,C13 tier=quick timeout=600 mem=4000 cost=40 clause="keyword matcher (3-letter keywords)" sample="DIM LET AND NOT END FOR DEF REM on any 6 ASCII bytes" bounds="6 bytes"
#[kani::proof]
#[kani::unwind(8)]
fn c12_keyword_three_letters() {
    let which: u8 = kani::any();
    match which {
        0 => check_keyword("DIM"),
        1 => check_keyword("LET"),
        2 => check_keyword("AND"),
        3 => check_keyword("NOT"),
        4 => check_keyword("END"),
        5 => check_keyword("FOR"),
        6 => check_keyword("DEF"),
        _ => check_keyword("REM"),
    }
}

// @verif prop=C12,C13 tier=quick timeout=600 mem=4000 cost=40 clause="keyword matcher (4-letter keywords)" sample="GOTO THEN ELSE STOP NEXT STEP READ DATA on any 6 ASCII bytes" bounds="6 bytes"
#[kani::proof]
#[kani::unwind(8)]
fn c12_keyword_four_letters() {
    let which: u8 = kani::any();
    match which {
        0 => check_keyword("GOTO"),
        1 => check_keyword("THEN"),
        2 => check_keyword("ELSE"),
        3 => check_keyword("STOP"),
        4 => check_keyword("NEXT"),
        5 => check_keyword("STEP"),
        6 => check_keyword("READ"),
        _ => check_keyword("DATA"),
    }
}

// @verif prop=C12,C13 tier=quick timeout=600 mem=4000 cost=40 clause="keyword matcher (5+ letter keywords)" sample="PRINT INPUT GOSUB RETURN RESTORE on any 6 ASCII bytes (RESTORE can never fit: must not match)" bounds="6 bytes"
#[kani::proof]
#[kani::unwind(9)]
fn c12_keyword_long() {
    let which: u8 = kani::any();
    match which {
        0 => check_keyword("PRINT"),
        1 => check_keyword("INPUT"),
        2 => check_keyword("GOSUB"),
        3 => check_keyword("RETURN"),
        _ => check_keyword("RESTORE"),
    }
}

// @verif prop=C12,C13 tier=quick timeout=600 mem=4000 cost=40 clause="one- and two-character operators: chosen by the first non-blank byte and (for < >) the next non-blank byte; cursor right after the last consumed byte"
// @verif sample="any 6 ASCII bytes from any start: < = with blanks between is <=, < > is <>, > = is >=" bounds="6 bytes"
#[kani::proof]
#[kani::unwind(8)]
fn c12_one_or_two_characters() {
    let (buf, len) = any_ascii();
    let start: usize = kani::any();
    kani::assume(start <= len);
    let mut sm = StringManager::default();
    let mut t = Tokenizer::new(as_str(&buf, len), &mut sm);
    t.index = start;
    let got = t.chomp_one_or_two_characters();
    let b0 = kth_nonblank(&buf, len, start, 0);
    let b1 = kth_nonblank(&buf, len, start, 1);
    let (expect, consumed): (Option<Token>, usize) = match b0 {
        Some(b':') => (Some(Token::Colon), 1),
        Some(b';') => (Some(Token::Semicolon), 1),
        Some(b',') => (Some(Token::Comma), 1),
        Some(b'?') => (Some(Token::QuestionMark), 1),
        Some(b'(') => (Some(Token::LeftParen), 1),
        Some(b')') => (Some(Token::RightParen), 1),
        Some(b'+') => (Some(Token::Plus), 1),
        Some(b'-') => (Some(Token::Minus), 1),
        Some(b'*') => (Some(Token::Multiply), 1),
        Some(b'/') => (Some(Token::Divide), 1),
        Some(b'^') => (Some(Token::Caret), 1),
        Some(b'=') => (Some(Token::Equals), 1),
        Some(b'<') => match b1 {
            Some(b'>') => (Some(Token::NotEquals), 2),
            Some(b'=') => (Some(Token::LessThanOrEqualTo), 2),
            _ => (Some(Token::LessThan), 1),
        },
        Some(b'>') => match b1 {
            Some(b'=') => (Some(Token::GreaterThanOrEqualTo), 2),
            _ => (Some(Token::GreaterThan), 1),
        },
        _ => (None, 0),
    };
    match (&got, &expect) {
        (Some(Ok(g)), Some(e)) => {
            assert!(g == e, "c12 operator: the operator is decided by the non-blank bytes only");
            assert!(Some(t.index) == after_kth_nonblank(&buf, len, start, consumed), "c13 operator: cursor right after the last consumed byte");
        }
        (None, None) => assert!(t.index == start, "c13 operator: no match consumes nothing"),
        _ => panic!("c12 operator: wrong verdict"),
    }
    kani::cover!(consumed == 2 && t.index - start > 2, "reached_two_chars_with_blanks_between");
    core::mem::forget(got);
    core::mem::forget(expect);
    core::mem::forget(t);
    core::mem::forget(sm);
}

// @verif prop=C13,C12 tier=quick timeout=600 mem=4000 cost=30 clause="leading-blank chomp: afterwards the cursor is on the first non-blank byte (or at the end)"
// @verif sample="any 6 ASCII bytes from any start" bounds="6 bytes"
#[kani::proof]
#[kani::unwind(8)]
fn c13_chomp_leading_whitespace() {
    let (buf, len) = any_ascii();
    let start: usize = kani::any();
    kani::assume(start <= len);
    let mut sm = StringManager::default();
    let mut t = Tokenizer::new(as_str(&buf, len), &mut sm);
    t.index = start;
    t.chomp_leading_whitespace();
    match after_kth_nonblank(&buf, len, start, 1) {
        Some(e) => assert!(t.index == e - 1 && !is_blank(buf[t.index]), "c13: token start is the first non-blank byte"),
        None => assert!(t.index == len, "c13: only blanks left: cursor at the end"),
    }
    kani::cover!(t.index > start && t.index < len, "reached_skipped_blanks");
    core::mem::forget(t);
    core::mem::forget(sm);
}

// @verif prop=C13,C01,C05 tier=quick timeout=300 mem=3000 cost=20 clause="tokenization error ranges: for an error position inside the line the reported range is within 0..=len with start <= end (caret arithmetic cannot underflow)"
// @verif sample="IllegalCharacter(i), UnterminatedStringLiteral(i) with i < len; InvalidNumber(a..b) with a <= b <= len; len any usize" bounds="all usize positions"
#[kani::proof]
fn c13_error_range_arithmetic() {
    let len: usize = kani::any();
    let i: usize = kani::any();
    kani::assume(i < len);
    let r1 = TokenizationError::IllegalCharacter(i).string_range(len);
    assert!(r1.start <= r1.end && r1.end <= len, "c13: illegal-character range lies inside the line");
    let r2 = TokenizationError::UnterminatedStringLiteral(i).string_range(len);
    assert!(r2.start == i && r2.end == len, "c13: unterminated string runs from its quote to the end of the line");
    let a: usize = kani::any();
    let b: usize = kani::any();
    kani::assume(a <= b && b <= len);
    let r3 = TokenizationError::InvalidNumber(a..b).string_range(len);
    assert!(r3.start == a && r3.end == b);
    kani::cover!(i + 1 == len, "reached_last_byte");
}

// ---- string / number / symbol matchers ---------------------------------------------------------

// @verif prop=C12,C13,C01 tier=quick timeout=900 mem=6000 cost=120 clause="string literal matcher: taken only at an opening quote; content is exactly the bytes up to the next quote (blanks and case kept); range ends just after the closing quote; no closing quote -> UNTERMINATED STRING at the opening quote"
// @verif sample="any 6 ASCII bytes, cursor on any non-blank byte" bounds="6 bytes"
#[kani::proof]
#[kani::unwind(9)]
fn c13_chomp_string() {
    let (buf, len) = any_ascii();
    let start: usize = kani::any();
    kani::assume(start < len && !is_blank(buf[start]));
    let mut sm = StringManager::default();
    let mut t = Tokenizer::new(as_str(&buf, len), &mut sm);
    t.index = start;
    let got = t.chomp_string();
    // reference: position of the next quote after the opening one
    let mut close: Option<usize> = None;
    let mut k = start + 1;
    while k < len {
        if buf[k] == b'"' && close.is_none() {
            close = Some(k);
        }
        k += 1;
    }
    if buf[start] != b'"' {
        assert!(got.is_none() && t.index == start, "c13 string: only an opening quote starts a string literal");
    } else {
        match (&got, close) {
            (Some(Ok(Token::StringLiteral(s))), Some(c)) => {
                assert!(t.index == c + 1, "c13 string: the range ends just after the closing quote");
                assert!(s.as_bytes().len() == c - start - 1, "c12 string: the literal keeps every byte between the quotes");
                let mut j = 0;
                while j < c - start - 1 {
                    assert!(s.as_bytes()[j] == buf[start + 1 + j], "c12 string: blanks and letter case inside a string literal are kept");
                    j += 1;
                }
                kani::cover!(c - start > 2, "reached_non_empty_literal");
            }
            (Some(Err(TokenizationError::UnterminatedStringLiteral(p))), None) => {
                assert!(*p == start, "c13 string: an unterminated string is reported at its opening quote");
                assert!(t.index == start);
                kani::cover!(true, "reached_unterminated");
            }
            _ => panic!("c13 string: wrong verdict"),
        }
    }
    core::mem::forget(got);
    core::mem::forget(t);
    core::mem::forget(sm);
}

/// marker model of the decimal parser (digits with at most one dot)
fn model_parse(digits: &[u8; N], n: usize) -> Option<f64> {
    let mut m: u64 = 0;
    let mut k: u32 = 0;
    let mut seen_dot = false;
    let mut nd = 0;
    let mut i = 0;
    while i < n {
        if digits[i] == b'.' {
            if seen_dot {
                return None;
            }
            seen_dot = true;
        } else {
            m = m * 10 + (digits[i] - b'0') as u64;
            nd += 1;
            if seen_dot {
                k += 1;
            }
        }
        i += 1;
    }
    if nd == 0 {
        return None;
    }
    // a marker that identifies the digit string and the dot position (std's decimal parser is
    // environment here: the claim is about which bytes form the numeral and where its range ends;
    // FP division by a symbolic power of ten made this harness exceed 6 GB)
    Some(m as f64 * 8.0 + k as f64 + if seen_dot { 0.5 } else { 0.0 })
}

fn stub_parse_f64_tok(s: &str) -> Result<f64, std::num::ParseFloatError> {
    let b = s.as_bytes();
    let mut a = [b'0'; N];
    let mut ok = b.len() > 0 && b.len() <= N;
    let mut i = 0;
    while i < b.len() && i < N {
        if (b[i] >= b'0' && b[i] <= b'9') || b[i] == b'.' {
            a[i] = b[i];
        } else {
            ok = false;
        }
        i += 1;
    }
    match if ok { model_parse(&a, b.len()) } else { None } {
        Some(v) => Ok(v),
        None => Err(unsafe { std::mem::transmute::<u8, std::num::ParseFloatError>(1) }),
    }
}

// @verif prop=C12,C13 tier=thorough timeout=2400 mem=20000 cost=900 clause="numeral matcher: the numeral is the maximal run of digits and dots among the non-blank bytes (blanks inside are insignificant); exactly those bytes are handed to the decimal parser; the range ends just after its last digit; a malformed run (two dots, lone dot) is INVALID NUMBER over that range"
// @verif sample="any 6 ASCII bytes from any start (e.g. `1 2.5X`, `..`, ` 7`)" bounds="6 bytes; std f64 parsing replaced by an injective marker of (digits, dot position)"
#[kani::proof]
#[kani::unwind(9)]
#[kani::stub(<f64 as std::str::FromStr>::from_str, stub_parse_f64_tok)]
fn c12_chomp_number() {
    let (buf, len) = any_ascii();
    let start: usize = kani::any();
    kani::assume(start <= len);
    let mut sm = StringManager::default();
    let mut t = Tokenizer::new(as_str(&buf, len), &mut sm);
    t.index = start;
    let got = t.chomp_number();
    // reference: crunched maximal prefix of [0-9.]
    let mut digits = [b'0'; N];
    let mut n = 0;
    let mut end = start;
    let mut k = start;
    let mut stopped = false;
    while k < len {
        let b = buf[k];
        if !stopped && !is_blank(b) {
            if (b >= b'0' && b <= b'9') || b == b'.' {
                digits[n] = b;
                n += 1;
                end = k + 1;
            } else {
                stopped = true;
            }
        }
        k += 1;
    }
    if n == 0 {
        assert!(got.is_none() && t.index == start, "c12 number: no digits, no numeral");
    } else {
        match (&got, model_parse(&digits, n)) {
            (Some(Ok(Token::NumericLiteral(v))), Some(x)) => {
                assert!(v.to_bits() == x.to_bits(), "c12 number: the numeral is made of exactly the non-blank digits and dots");
                assert!(t.index == end, "c13 number: the range ends just after the last digit");
                kani::cover!(end - start > n, "reached_numeral_with_blanks_inside");
            }
            (Some(Err(TokenizationError::InvalidNumber(r))), None) => {
                assert!(r.start == start && r.end == end, "c13 number: INVALID NUMBER covers exactly the malformed run");
                kani::cover!(true, "reached_invalid_number");
            }
            _ => panic!("c12 number: wrong verdict"),
        }
    }
    core::mem::forget(got);
    core::mem::forget(t);
    core::mem::forget(sm);
}
