// @anchor crate=abasic-core src=src/random.rs
//
// C18 (and the seed clause of C01): RND is a pure, in-range function of the seed.
// Constants below are the ones in the property text, not read from the source.
use super::*;

const P_MULT: u128 = 1664525;
const P_INC: u128 = 1013904223;
const P_MOD: u128 = 1u128 << 33;

fn ref_step(state: u64) -> u64 {
    ((P_MULT * (state as u128) + P_INC) % P_MOD) as u64
}

// @verif prop=C18,C01 tier=quick timeout=120 clause="LCG step for every 64-bit seed: no overflow, documented recurrence, result = state/2^33 in [0,1)"
// @verif sample="seed = kani::any::<u64>() (all 2^64 values incl. >= 2^44 and u64::MAX); one random() step" bounds="none (all u64 seeds); one step"
#[kani::proof]
#[kani::unwind(2)]
fn c18_step_all_seeds() {
    let seed: u64 = kani::any();
    let mut rng = Rng::new(seed);
    let r = rng.random();
    let expect = ref_step(seed);
    assert!(rng.seed == expect, "c18: state after one step is (1664525*s+1013904223) mod 2^33");
    assert!(r == (expect as f64) / 8589934592.0, "c18: value is state / 2^33");
    assert!(r >= 0.0 && r < 1.0, "c18: value in [0,1)");
    assert!(rng.latest_random() == r, "c18: latest_random repeats the value");
    kani::cover!(seed >= (1u64 << 44), "reached_big_seed");
    kani::cover!(seed == u64::MAX, "reached_max_seed");
    kani::cover!(r > 0.999999, "reached_near_one");
}

// @verif prop=C18 tier=quick timeout=120 clause="second step from every reachable state (state < 2^33) stays in range and follows the recurrence"
// @verif sample="state = any u64 < 2^33 (all 2^33 generator states symbolically); one step" bounds="all 2^33 states; one step (inductive: every later state is < 2^33)"
#[kani::proof]
#[kani::unwind(2)]
fn c18_step_from_every_state() {
    let state: u64 = kani::any();
    kani::assume(state < (1u64 << 33));
    let mut rng = Rng { seed: state };
    let r = rng.random();
    assert!(rng.seed == ref_step(state), "c18: recurrence from an in-range state");
    assert!(rng.seed < (1u64 << 33), "c18: state stays below the modulus (inductive invariant)");
    assert!(r >= 0.0 && r < 1.0, "c18: value in [0,1)");
    kani::cover!(rng.seed == (1u64 << 33) - 1, "reached_max_state");
}

// @verif prop=C18 tier=quick timeout=120 clause="argument-sign dispatch: x>0 advances once, x==0 repeats without advancing, x<0 errors without advancing"
// @verif sample="seed any u64, x any non-NaN f64 (incl. +-0, +-inf, subnormals)" bounds="all seeds x all non-NaN doubles; one call"
#[kani::proof]
#[kani::unwind(2)]
fn c18_rnd_dispatch() {
    let seed: u64 = kani::any();
    let x: f64 = kani::any();
    kani::assume(!x.is_nan());
    let mut rng = Rng::new(seed);
    let before_latest = rng.latest_random();
    let res = rng.rnd(x);
    check_dispatch(&rng, seed, x, before_latest, &res);
    // error values own (potentially) token payloads: skip their drop glue
    core::mem::forget(res);
}

fn check_dispatch(rng: &Rng, seed: u64, x: f64, before_latest: f64, res: &Result<f64, InterpreterError>) {
    if x > 0.0 {
        assert!(rng.seed == ref_step(seed), "c18: positive argument advances exactly once");
        match res {
            Ok(v) => assert!(*v == (rng.seed as f64) / 8589934592.0, "c18: positive argument returns the new value"),
            Err(_) => panic!("c18: positive argument must not fail"),
        }
        kani::cover!(true, "reached_positive");
    } else if x == 0.0 {
        assert!(rng.seed == seed, "c18: RND(0) does not advance");
        match res {
            Ok(v) => assert!(*v == before_latest, "c18: RND(0) repeats the previous value"),
            Err(_) => panic!("c18: RND(0) must not fail"),
        }
        kani::cover!(x.is_sign_negative(), "reached_negative_zero");
    } else {
        assert!(rng.seed == seed, "c18: negative argument does not advance");
        assert!(matches!(res, Err(InterpreterError::Unimplemented)), "c18: negative argument is an error");
        kani::cover!(true, "reached_negative");
    }
}
