// @anchor crate=abasic-core src=src/interpreter.rs export=1
//
// C19: the core interpreter's turn API as a *contract* (DESIGN.md C19): nondeterministic functions
// constrained only by the post-conditions that the C01/C07/C08 harnesses establish for the real
// functions (Err => Idle; NEW only out of start_evaluating; provide_input: AwaitingInput -> Running;
// break -> Idle).  The entry assertions of the real functions are kept, so a protocol violation by
// the adapter or the page still trips them.
#![allow(dead_code)]
use super::*;

/// Which core calls fail is *structure* (one harness per mask): bit k set = the k-th call of
/// start/continue_evaluating returns an error value.  With a symbolic Ok/Err choice every dropped
/// error drags the drop glue of Backtrace and of token payloads into every path (measured: > 8 GB).
/// The state reached by a successful call stays symbolic.
pub static mut FAIL_MASK: u32 = 0;
pub static mut CALL_NO: u32 = 0;

/// Set by the page model while the start-up loader submits a line that begins with a digit: such a
/// text cannot be a command (its first word starts with a digit) and has a line number, so the real
/// core either stores/deletes the line or rejects it, and stays Idle (interpreter.rs evaluate_impl;
/// the line-entry step is what the C04/C11 harnesses exercise).
pub static mut NUMBERED_LINE: bool = false;

pub fn set_numbered_line(on: bool) {
    unsafe {
        NUMBERED_LINE = on;
    }
}

pub fn set_fail_mask(mask: u32) {
    unsafe {
        FAIL_MASK = mask;
        CALL_NO = 0;
        TEXT_NO = 0;
    }
}

fn this_call_fails() -> bool {
    unsafe {
        let f = (FAIL_MASK >> CALL_NO) & 1 == 1;
        CALL_NO += 1;
        f
    }
}

pub fn contract_start_evaluating<T: AsRef<str>>(i: &mut Interpreter, _line: T) -> Result<(), TracedInterpreterError> {
    assert!(i.state == InterpreterState::Idle, "core contract: start_evaluating requires Idle");
    if this_call_fails() {
        i.state = InterpreterState::Idle;
        return Err(crate::InterpreterError::TypeMismatch.into());
    }
    if unsafe { NUMBERED_LINE } {
        i.state = InterpreterState::Idle;
        return Ok(());
    }
    if _line.as_ref().as_bytes() == b"NEW" {
        // the one command whose outcome the adapter must react to (interpreter.rs: "NEW" arm)
        i.state = InterpreterState::NewInterpreterRequested;
        return Ok(());
    }
    let outcome: u8 = kani::any();
    match outcome {
        0 => {
            i.state = InterpreterState::Idle;
            Ok(())
        }
        1 => {
            i.state = InterpreterState::Running;
            Ok(())
        }
        2 => {
            i.state = InterpreterState::AwaitingInput;
            Ok(())
        }
        _ => {
            i.state = InterpreterState::NewInterpreterRequested;
            Ok(())
        }
    }
}

/// Realiser (DESIGN.md 4.5): a concrete text with which the *real* core produces the outcome class
/// the mask prescribes for the next call (used by the native replay, where stubs do not apply).
pub static mut TEXT_NO: u32 = 0;

pub fn realiser_run() -> String {
    unsafe {
        TEXT_NO += 1;
    }
    String::from("RUN")
}

pub fn realiser_line(numbered: bool) -> String {
    // natively the stubs (which advance CALL_NO) do not run: keep an own counter of submitted texts
    let fails = unsafe {
        let f = (FAIL_MASK >> TEXT_NO) & 1 == 1;
        TEXT_NO += 1;
        f
    };
    String::from(match (numbered, fails) {
        (true, true) => "20 C% = 1",
        (true, false) => "10 REM",
        (false, true) => "%",
        (false, false) => "REM",
    })
}

pub fn contract_continue_evaluating(i: &mut Interpreter) -> Result<(), TracedInterpreterError> {
    assert!(i.state == InterpreterState::Running, "core contract: continue_evaluating requires Running");
    if this_call_fails() {
        i.state = InterpreterState::Idle;
        return Err(crate::InterpreterError::TypeMismatch.into());
    }
    let outcome: u8 = kani::any();
    match outcome {
        0 => {
            i.state = InterpreterState::Idle;
            Ok(())
        }
        1 => {
            i.state = InterpreterState::Running;
            Ok(())
        }
        _ => {
            i.state = InterpreterState::AwaitingInput;
            Ok(())
        }
    }
}

pub fn contract_provide_input(i: &mut Interpreter, _input: String) {
    assert!(i.state == InterpreterState::AwaitingInput, "core contract: provide_input requires AwaitingInput");
    i.state = InterpreterState::Running;
}

pub fn contract_break_at_current_location(i: &mut Interpreter) {
    i.state = InterpreterState::Idle;
}

pub fn contract_error_display(_e: &TracedInterpreterError, _f: &mut std::fmt::Formatter<'_>) -> std::fmt::Result {
    Ok(())
}

pub fn contract_output_display(_o: &InterpreterOutput, _f: &mut std::fmt::Formatter<'_>) -> std::fmt::Result {
    Ok(())
}

pub fn contract_backtrace_capture() -> std::backtrace::Backtrace {
    std::backtrace::Backtrace::disabled()
}

pub fn contract_caret<T: AsRef<str>>(_e: &TracedInterpreterError, _i: &Interpreter, _line: Option<T>) -> Vec<String> {
    Vec::new()
}

/// is this interpreter indistinguishable from a freshly created one (as far as the adapter exposes)?
pub fn looks_fresh(i: &Interpreter) -> bool {
    i.state == InterpreterState::Idle && i.output.is_empty() && i.input.is_none() && !i.enable_tracing && !i.enable_warnings
}

pub fn mark_used(i: &mut Interpreter) {
    i.enable_tracing = true;
}
