// @anchor crate=abasic-core src=src/expression.rs needs=verif_support,verif_paccess,verif_raccess,verif_isupport
//
// C07/C16: a user-function call whose body fails leaves no frame behind (entered directly at
// evaluate_user_defined_function_call: the full statement path with a failing nested expression
// exhausts memory in symex).
use super::*;
use crate::interpreter::verif_isupport::*;

// @verif prop=C07,C16 tier=quick timeout=900 mem=8000 cost=200 clause="a user-function call that fails inside its body pops its frame (no frame / parameter binding survives); a successful call pops it too"
// @verif sample="5 DEF FNB(Q) = 1 / d registered; 2 frames open, breakpoint pending; call FNB(1) with d in {0, 2}" bounds="one call; d = 0 (fails) or 2 (succeeds)"
#[kani::proof]
#[kani::unwind(16)]
#[kani::stub(std::backtrace::Backtrace::capture, crate::verif_support::stub_backtrace_capture)]
#[kani::stub(crate::string_manager::StringManager::gc, crate::verif_support::stub_gc)]
#[kani::stub(alloc::fmt::format, crate::verif_support::stub_format)]
#[kani::stub(<crate::symbol::Symbol as std::fmt::Display>::fmt, crate::verif_support::stub_symbol_display)]
fn c07_fn_call_frame_is_popped() {
    let fails: bool = kani::any();
    let d = if fails { 0.0 } else { 2.0 };
    let mut i = Interpreter::default();
    line(&mut i, 5, vec![Token::Def, tsym("FNB"), Token::LeftParen, tsym("Q"), Token::RightParen, Token::Equals, tnum(1.0), Token::Divide, tnum(d)]);
    i.program.run_from_first_numbered_line();
    pa::add_function(&mut i.program, "FNB", "Q", 5, 6);
    pa::push_frames(&mut i.program, 2, 5);
    pa::set_breakpoint(&mut i.program, 5, 0);
    i.program.set_and_goto_immediate_line(vec![Token::LeftParen, tnum(1.0), Token::RightParen]);
    let name = sym("FNB");
    let res = ExpressionEvaluator::new(&mut i).evaluate_user_defined_function_call(&name);
    assert!(res.is_err() == fails, "c07: the call fails exactly when the body divides by zero");
    assert!(pa::stack_len(&i.program) == 2, "c07 failing-fn: a function call must not leave its frame on the stack, whether it fails or not");
    assert!(pa::at_immediate(&i.program), "c07 failing-fn: after the call the cursor is back in the calling line");
    kani::cover!(fails, "reached_failing_call");
    kani::cover!(!fails, "reached_successful_call");
    core::mem::forget(res);
    core::mem::forget(i);
}

// @verif prop=C07,C16 tier=thorough timeout=2400 mem=20000 cost=900 clause="nested user-function calls whose inner body fails: neither call leaves its frame behind"
// @verif sample="5 DEF FNA(P) = FNB(P) + 1 / 6 DEF FNB(Q) = Q / 0 registered; 2 frames open, breakpoint pending; call FNA(1)" bounds="two nested calls, the inner one fails"
#[kani::proof]
#[kani::unwind(16)]
#[kani::stub(std::backtrace::Backtrace::capture, crate::verif_support::stub_backtrace_capture)]
#[kani::stub(crate::string_manager::StringManager::gc, crate::verif_support::stub_gc)]
#[kani::stub(alloc::fmt::format, crate::verif_support::stub_format)]
#[kani::stub(<crate::symbol::Symbol as std::fmt::Display>::fmt, crate::verif_support::stub_symbol_display)]
fn c07_nested_fn_call_frames_are_popped() {
    let mut i = Interpreter::default();
    line(&mut i, 5, vec![Token::Def, tsym("FNA"), Token::LeftParen, tsym("P"), Token::RightParen, Token::Equals, tsym("FNB"), Token::LeftParen, tsym("P"), Token::RightParen, Token::Plus, tnum(1.0)]);
    line(&mut i, 6, vec![Token::Def, tsym("FNB"), Token::LeftParen, tsym("Q"), Token::RightParen, Token::Equals, tsym("Q"), Token::Divide, tnum(0.0)]);
    i.program.run_from_first_numbered_line();
    pa::add_function(&mut i.program, "FNA", "P", 5, 6);
    pa::add_function(&mut i.program, "FNB", "Q", 6, 6);
    pa::push_frames(&mut i.program, 2, 5);
    pa::set_breakpoint(&mut i.program, 5, 0);
    i.program.set_and_goto_immediate_line(vec![Token::LeftParen, tnum(1.0), Token::RightParen]);
    let name = sym("FNA");
    let res = ExpressionEvaluator::new(&mut i).evaluate_user_defined_function_call(&name);
    assert!(res.is_err(), "c07: the inner body divides by zero");
    assert!(pa::stack_len(&i.program) == 2, "c07 failing-fn: nested failing calls must not leave frames on the stack");
    kani::cover!(true, "reached_end");
    core::mem::forget(res);
    core::mem::forget(i);
}
