// @anchor crate=abasic-core src=src/analyzer/source_file_analyzer.rs needs=verif_support
//
// C05: the real SourceFileAnalyzer::run on small concrete files (the shapes the property names),
// asserting the mapping invariants on whatever it reports.
use super::*;

fn check_file(lines: Vec<String>) {
    let n = lines.len();
    let analyzer = SourceFileAnalyzer::analyze_lines(lines);
    assert!(analyzer.token_types().len() == n, "c05: one token list per file line");
    let msgs = analyzer.messages();
    let mut k = 0;
    while k < msgs.len() {
        let m = &msgs[k];
        let file_line = match m {
            DiagnosticMessage::Warning(l, _, _) => *l,
            DiagnosticMessage::Error(l, _) => *l,
        };
        assert!(file_line < n, "c05: a diagnostic names an existing file line");
        let mapped = analyzer.source_file_map().map_to_source(m);
        match mapped {
            Some((l, r)) => {
                assert!(l == file_line, "c05: the mapped position lies on the file line the diagnostic names");
                let text = &analyzer.source_file_lines()[l];
                assert!(r.start <= r.end && r.end <= text.len(), "c05: the mapped range lies within the line");
                assert!(text.is_char_boundary(r.start) && text.is_char_boundary(r.end), "c05: the mapped range is on character boundaries");
            }
            None => panic!("c05: every diagnostic can be mapped to a source position"),
        }
        k += 1;
    }
    let tt = analyzer.token_types();
    let mut l = 0;
    while l < tt.len() {
        let mut j = 1;
        while j < tt[l].len() {
            assert!(tt[l][j - 1].1.end <= tt[l][j].1.start, "c05: per-line token ranges are ordered and non-overlapping");
            j += 1;
        }
        l += 1;
    }
    kani::cover!(msgs.len() > 0, "reached_some_diagnostic");
    core::mem::forget(analyzer);
}

macro_rules! file_harness {
    ($name:ident, $($line:expr),+) => {
        #[kani::proof]
        #[kani::unwind(20)]
        #[kani::stub(std::backtrace::Backtrace::capture, crate::verif_support::stub_backtrace_capture)]
        #[kani::stub(crate::string_manager::StringManager::gc, crate::verif_support::stub_gc)]
        #[kani::stub(alloc::fmt::format, crate::verif_support::stub_format)]
        #[kani::stub(<crate::symbol::Symbol as std::fmt::Display>::fmt, crate::verif_support::stub_symbol_display)]
        fn $name() {
            check_file(vec![$(String::from($line)),+]);
        }
    };
}

// @verif prop=C05,C20 tier=quick timeout=1200 mem=8000 cost=300 concrete=1 clause="line number defined twice, second definition empty: analysis returns, every diagnostic maps onto its own line" sample="10 X = 1 / 10" bounds="this 2-line file (concrete text through the real tokenizer and analyzer)"
file_harness!(c05_file_redefined_empty, "10 X = 1", "10");

// @verif prop=C05,C20 tier=thorough timeout=2400 mem=20000 cost=900 concrete=1 clause="line number defined twice, second definition untokenizable" sample="10 X = 1 / 10 PRINT (unterminated string)" bounds="this 2-line file"
file_harness!(c05_file_redefined_untokenizable, "10 X = 1", "10 PRINT \"");

// @verif prop=C05 tier=quick timeout=1200 mem=8000 cost=300 concrete=1 clause="unnumbered, blank and CR-terminated lines; unused and undefined symbols" sample="(blank) / PRINT 1 / 20 Y = X (CR)" bounds="this 3-line file"
file_harness!(c05_file_mixed_lines, "", "PRINT 1", "20 Y = X\r");

// @verif prop=C05 tier=quick timeout=1200 mem=10000 cost=300 concrete=1 clause="a tokenization error (invalid number) is reported with a range inside its line" sample="10 PRINT 1.2.3" bounds="this 1-line file"
file_harness!(c05_file_invalid_number, "10 PRINT 1.2.3");

// @verif prop=C05 tier=thorough timeout=2400 mem=20000 cost=900 concrete=1 clause="a type error found by the analysis maps onto its line and token" sample="10 X = (string)" bounds="this 1-line file"
file_harness!(c05_file_type_error, "10 X = \"A\"");

// @verif prop=C05 tier=thorough timeout=2400 mem=20000 cost=900 concrete=1 clause="undefined jump target, and an expression that ends early (errors raised inside expression analysis)" sample="10 GOTO 99 / 20 PRINT 1 +" bounds="this 2-line file"
file_harness!(c05_file_analysis_errors, "10 GOTO 99", "20 PRINT 1 +");

// @verif prop=C05 tier=quick timeout=1200 mem=8000 cost=300 concrete=1 clause="an illegal multi-byte character: the reported range must lie on character boundaries" sample="10 PRINT (e-acute as an illegal character outside a string)" bounds="this 1-line file"
file_harness!(c05_file_multibyte_illegal_character, "10 \u{e9}");

// @verif prop=C05 tier=quick timeout=1200 mem=8000 cost=300 concrete=1 clause="unterminated string literal containing a multi-byte character: the reported range ends at the end of the line in bytes, on a character boundary" sample="10 PRINT (unterminated string h e-acute)" bounds="this 1-line file"
file_harness!(c05_file_unterminated_multibyte_string, "10 PRINT \"h\u{e9}");

// @verif prop=C05 tier=thorough timeout=1500 mem=10000 cost=400 concrete=1 clause="non-ASCII text inside strings and remarks, three definitions of one line" sample="10 PRINT (string with e-acute) / 10 REM (emoji) / 10 / 20 NEXT I" bounds="this 4-line file"
file_harness!(c05_file_non_ascii_and_triple_definition, "10 PRINT \"\u{e9}\" + 1", "10 REM \u{1F60A}", "10", "20 NEXT I");
