// @anchor crate=abasic-core src=src/program_lines.rs
//
// C04: the program store is a last-writer-wins map listed and run in line order;
// C01: successor lookup never panics at the numeric extremes.
use super::*;

/// marker payloads: 0 = empty (delete), 1 = [END], 2 = [STOP]
fn payload(m: u8) -> Vec<Token> {
    match m {
        0 => vec![],
        1 => vec![Token::End],
        _ => vec![Token::Stop],
    }
}

fn marker_of(tokens: Option<&Vec<Token>>) -> u8 {
    match tokens {
        None => 0,
        Some(t) => {
            if t.len() == 1 && matches!(t[0], Token::End) {
                1
            } else if t.len() == 1 && matches!(t[0], Token::Stop) {
                2
            } else {
                99
            }
        }
    }
}

/// Reference: a history of (line, marker) entries; last writer wins; marker 0 deletes.
struct RefStore<const N: usize> {
    ops: [(u64, u8); N],
}

impl<const N: usize> RefStore<N> {
    fn get(&self, line: u64) -> u8 {
        let mut m = 0;
        let mut i = 0;
        while i < N {
            if self.ops[i].0 == line {
                m = self.ops[i].1;
            }
            i += 1;
        }
        m
    }
    /// least present line satisfying `line > bound` (or any line when bound is None)
    fn least_above(&self, bound: Option<u64>) -> Option<u64> {
        let mut best: Option<u64> = None;
        let mut i = 0;
        while i < N {
            let l = self.ops[i].0;
            let ok = match bound {
                None => true,
                Some(b) => l > b,
            };
            if ok && self.get(l) != 0 {
                best = match best {
                    None => Some(l),
                    Some(b) => Some(if l < b { l } else { b }),
                };
            }
            i += 1;
        }
        best
    }
    fn count(&self) -> usize {
        // number of distinct present lines
        let mut n = 0;
        let mut i = 0;
        while i < N {
            let l = self.ops[i].0;
            let mut first_occurrence = true;
            let mut j = 0;
            while j < i {
                if self.ops[j].0 == l {
                    first_occurrence = false;
                }
                j += 1;
            }
            if first_occurrence && self.get(l) != 0 {
                n += 1;
            }
            i += 1;
        }
        n
    }
}

fn check_list_tokens<const N: usize>(pl: &ProgramLines, r: &RefStore<N>) {
        let listed = pl.list_tokens();
        assert!(listed.len() == r.count(), "c04: LIST shows exactly the stored lines");
        let mut i = 0;
        while i < listed.len() {
            assert!(marker_of(Some(listed[i].1)) == r.get(listed[i].0), "c04: LIST shows each line's current tokens");
            assert!(r.get(listed[i].0) != 0, "c04: LIST shows no deleted line");
            if i > 0 {
                assert!(listed[i - 1].0 < listed[i].0, "c04: LIST is in strictly ascending numeric order");
            }
            i += 1;
        }
    core::mem::forget(listed);
}

fn check_store<const N: usize>(pl: &ProgramLines, r: &RefStore<N>, check_list: bool) {
    if check_list {
        check_list_tokens(pl, r);
        return;
    }
    let probe: u64 = kani::any();
    assert!(pl.has(probe) == (r.get(probe) != 0), "c04: a line exists iff its last entry was non-empty");
    assert!(marker_of(pl.get(probe)) == r.get(probe), "c04: a line holds the tokens of its last entry");
    assert!(pl.first() == r.least_above(None), "c04: execution starts at the least stored line");
    assert!(pl.after(probe) == r.least_above(Some(probe)), "c04: the successor of a line is the least stored line above it");
    // two-index agreement
    assert!(pl.sorted_line_numbers.len() == pl.numbered_lines.len(), "c04: both indexes hold the same number of lines");
    assert!(pl.sorted_line_numbers.len() == r.count(), "c04: number of stored lines equals the number of distinct live lines");
    kani::cover!(probe == u64::MAX, "reached_probe_max");
    kani::cover!(pl.has(u64::MAX), "reached_line_max_stored");
    kani::cover!(pl.has(0), "reached_line_zero_stored");
}

fn history_2(m2: u8) {
    let k1: u64 = kani::any();
    let k2: u64 = kani::any();
    let mut pl = ProgramLines::default();
    pl.set(k1, payload(1));
    pl.set(k2, payload(m2));
    let r = RefStore { ops: [(k1, 1), (k2, m2)] };
    check_store(&pl, &r, false);
    kani::cover!(k1 == k2, "reached_same_line_twice");
    kani::cover!(k2 < k1, "reached_out_of_order_entry");
    core::mem::forget(pl);
}

fn history_3(m3: u8, list: bool) {
    let k1: u64 = kani::any();
    let k2: u64 = kani::any();
    let k3: u64 = kani::any();
    let mut pl = ProgramLines::default();
    pl.set(k1, payload(1));
    pl.set(k2, payload(2));
    pl.set(k3, payload(m3));
    let r = RefStore { ops: [(k1, 1), (k2, 2), (k3, m3)] };
    check_store(&pl, &r, list);
    kani::cover!(k3 == k1 && k1 != k2, "reached_third_hits_first_of_two");
    kani::cover!(k1 < k3 && k3 < k2, "reached_third_between");
    core::mem::forget(pl);
}

// @verif prop=C04,C01 tier=quick timeout=600 arms=3 clause="every history of 2 line entries (add/replace/delete) over any u64 line numbers: map semantics, two-index agreement, first/after incl. after(u64::MAX)"
// @verif sample="set(k1,[END]); set(k2,m2) with k1,k2 any u64 (equal or not), m2 in {empty,[END],[STOP]} (one arm each); probe any u64" bounds="2 entries; all u64 line numbers; payloads are 1-token markers"
#[kani::proof]
#[kani::unwind(5)]
fn c04_history_2() {
    let arm: u8 = kani::any();
    match arm {
        0 => { history_2(0); kani::cover!(true, "arm_0_delete"); }
        1 => { history_2(1); kani::cover!(true, "arm_1_end"); }
        _ => { history_2(2); kani::cover!(true, "arm_2_stop"); }
    }
}

// @verif prop=C04,C01 tier=quick timeout=900 arms=3 clause="every history of 3 line entries over any u64 line numbers (no LIST clause)"
// @verif sample="set(k1,[END]); set(k2,[STOP]); set(k3,m3): k1,k2,k3 any u64, m3 in {empty,[END],[STOP]}; probe any u64" bounds="3 entries; all u64 line numbers"
#[kani::proof]
#[kani::unwind(6)]
fn c04_history_3() {
    let arm: u8 = kani::any();
    match arm {
        0 => { history_3(0, false); kani::cover!(true, "arm_0_delete"); }
        1 => { history_3(1, false); kani::cover!(true, "arm_1_end"); }
        _ => { history_3(2, false); kani::cover!(true, "arm_2_stop"); }
    }
}

// @verif prop=C04 tier=thorough timeout=2400 arms=3 clause="3-entry histories incl. the LIST clause"
// @verif sample="as c04_history_3 plus list_tokens order/membership" bounds="3 entries; all u64 line numbers"
#[kani::proof]
#[kani::unwind(6)]
fn c04_history_3_list() {
    let arm: u8 = kani::any();
    match arm {
        0 => { history_3(0, true); kani::cover!(true, "arm_0_delete"); }
        1 => { history_3(1, true); kani::cover!(true, "arm_1_end"); }
        _ => { history_3(2, true); kani::cover!(true, "arm_2_stop"); }
    }
}

fn list_histories(first: u64) {
    let keys: [u64; 3] = [0, 7, u64::MAX];
    let mut b = 0;
    while b < 3 {
        let mut c = 0;
        while c < 3 {
            let mut m3: u8 = 0;
            while m3 < 3 {
                let mut pl = ProgramLines::default();
                pl.set(first, payload(1));
                pl.set(keys[b], payload(2));
                pl.set(keys[c], payload(m3));
                let r = RefStore { ops: [(first, 1), (keys[b], 2), (keys[c], m3)] };
                check_list_tokens(&pl, &r);
                core::mem::forget(pl);
                m3 += 1;
            }
            c += 1;
        }
        b += 1;
    }
}

// @verif prop=C04 tier=quick timeout=900 arms=27 clause="LIST shows exactly the live lines, each with its current tokens, in ascending numeric order (concrete line numbers at the extremes; composes with the symbolic two-index agreement)"
// @verif sample="3-entry histories: first line 7, then lines from {0,7,u64::MAX} x third payload {empty,[END],[STOP]} (27 concrete histories); list_tokens vs. reference" bounds="3 entries; line numbers from {0,7,u64::MAX}"
#[kani::proof]
#[kani::unwind(6)]
fn c04_list_order_first7() {
    list_histories(7);
    kani::cover!(true, "reached_end");
}

// @verif prop=C04 tier=quick timeout=900 arms=27 clause="LIST order/membership, first entry at line u64::MAX"
// @verif sample="3-entry histories: first line u64::MAX, then lines from {0,7,u64::MAX} x third payload (27 concrete histories)" bounds="3 entries; line numbers from {0,7,u64::MAX}"
#[kani::proof]
#[kani::unwind(6)]
fn c04_list_order_firstmax() {
    list_histories(u64::MAX);
    kani::cover!(true, "reached_end");
}
