// @anchor crate=abasic-core src=src/interpreter.rs needs=verif_support,verif_paccess,verif_raccess
//
// Session-level helpers (child of interpreter.rs: sees `state`, `input`, `output`).
#![allow(dead_code)]
use super::*;
pub(crate) use crate::program::verif_paccess as pa;
pub(crate) use crate::verif_support::*;

pub(crate) const ST_IDLE: u8 = 0;
pub(crate) const ST_RUNNING: u8 = 1;
pub(crate) const ST_AWAITING: u8 = 2;
pub(crate) const ST_NEW: u8 = 3;

pub(crate) fn st(i: &Interpreter) -> u8 {
    match i.state {
        InterpreterState::Idle => ST_IDLE,
        InterpreterState::Running => ST_RUNNING,
        InterpreterState::AwaitingInput => ST_AWAITING,
        InterpreterState::NewInterpreterRequested => ST_NEW,
    }
}

pub(crate) fn line(i: &mut Interpreter, n: u64, toks: Vec<Token>) {
    i.program.set_numbered_line(n, toks);
}

/// One host turn: continue while running. Returns Some(err kind code) on error.
pub(crate) fn turn(i: &mut Interpreter) -> Option<u8> {
    let r = i.continue_evaluating();
    let code = match &r {
        Ok(()) => None,
        Err(e) => Some(err_code(&e.error)),
    };
    core::mem::forget(r);
    code
}

/// The RUN command through the real text-level entry point.
pub(crate) fn run(i: &mut Interpreter) -> Option<u8> {
    cmd(i, "RUN")
}

pub(crate) fn cmd(i: &mut Interpreter, text: &'static str) -> Option<u8> {
    let r = i.start_evaluating(text);
    let code = match &r {
        Ok(()) => None,
        Err(e) => Some(err_code(&e.error)),
    };
    core::mem::forget(r);
    code
}

/// An immediate (unnumbered) line given as tokens: what `evaluate_impl` does after tokenizing.
pub(crate) fn immediate(i: &mut Interpreter, toks: Vec<Token>) -> Option<u8> {
    assert!(i.state == InterpreterState::Idle);
    i.program.set_and_goto_immediate_line(vec![]);
    i.program.set_and_goto_immediate_line(toks);
    let mut r = i.run_next_statement();
    // postprocess_result, step by step (see `stmt`)
    if let Err(err) = &mut r {
        i.program.populate_error_location(err);
        i.return_to_idle_state();
    }
    let code = match &r {
        Ok(()) => None,
        Err(e) => Some(err_code(&e.error)),
    };
    core::mem::forget(r);
    code
}

pub(crate) const E_SYNTAX: u8 = 1;
pub(crate) const E_TYPE: u8 = 2;
pub(crate) const E_DATATYPE: u8 = 3;
pub(crate) const E_UNDEF: u8 = 4;
pub(crate) const E_OOM_STACK: u8 = 5;
pub(crate) const E_OOM_ARRAY: u8 = 6;
pub(crate) const E_OUT_OF_DATA: u8 = 7;
pub(crate) const E_RETURN: u8 = 8;
pub(crate) const E_NEXT: u8 = 9;
pub(crate) const E_SUBSCRIPT: u8 = 10;
pub(crate) const E_QUANTITY: u8 = 11;
pub(crate) const E_UNIMPL: u8 = 12;
pub(crate) const E_DIVZERO: u8 = 13;
pub(crate) const E_REDIM: u8 = 14;
pub(crate) const E_CONT: u8 = 15;
pub(crate) const E_DIRECT: u8 = 16;

pub(crate) fn err_code(e: &crate::InterpreterError) -> u8 {
    use crate::{InterpreterError as IE, OutOfMemoryError as OOM};
    match e {
        IE::Syntax(_) => E_SYNTAX,
        IE::TypeMismatch => E_TYPE,
        IE::DataTypeMismatch => E_DATATYPE,
        IE::UndefinedStatement => E_UNDEF,
        IE::OutOfMemory(OOM::StackOverflow) => E_OOM_STACK,
        IE::OutOfMemory(OOM::ArrayTooLarge) => E_OOM_ARRAY,
        IE::OutOfData => E_OUT_OF_DATA,
        IE::ReturnWithoutGosub => E_RETURN,
        IE::NextWithoutFor => E_NEXT,
        IE::BadSubscript => E_SUBSCRIPT,
        IE::IllegalQuantity => E_QUANTITY,
        IE::Unimplemented => E_UNIMPL,
        IE::DivisionByZero => E_DIVZERO,
        IE::RedimensionedArray => E_REDIM,
        IE::CannotContinue => E_CONT,
        IE::IllegalDirect => E_DIRECT,
    }
}

pub(crate) fn num(i: &Interpreter, name: &str) -> f64 {
    match i.variables.get(&sym(name)) {
        Value::Number(x) => x,
        Value::String(_) => panic!("numeric variable holds a string"),
    }
}

pub(crate) fn has_var(i: &Interpreter, name: &str) -> bool {
    i.variables.has(&sym(name))
}

pub(crate) fn has_array(i: &Interpreter, name: &str) -> bool {
    i.arrays.has(&sym(name))
}

pub(crate) fn set_num(i: &mut Interpreter, name: &str, x: f64) {
    let r = i.variables.set(sym(name), Value::Number(x));
    kani::assume(r.is_ok());
    core::mem::forget(r);
}

pub(crate) const O_PRINT: u8 = 0;
pub(crate) const O_BREAK: u8 = 1;
pub(crate) const O_WARNING: u8 = 2;
pub(crate) const O_TRACE: u8 = 3;
pub(crate) const O_EXTRA: u8 = 4;
pub(crate) const O_REENTER: u8 = 5;

pub(crate) fn out_len(i: &Interpreter) -> usize {
    i.output.len()
}

pub(crate) fn out_kind(i: &Interpreter, k: usize) -> u8 {
    match &i.output[k] {
        InterpreterOutput::Print(_) => O_PRINT,
        InterpreterOutput::Break(_) => O_BREAK,
        InterpreterOutput::Warning(_, _) => O_WARNING,
        InterpreterOutput::Trace(_) => O_TRACE,
        InterpreterOutput::ExtraIgnored => O_EXTRA,
        InterpreterOutput::Reenter => O_REENTER,
    }
}

pub(crate) fn count_kind(i: &Interpreter, kind: u8) -> usize {
    let mut n = 0;
    let mut k = 0;
    while k < i.output.len() {
        if out_kind(i, k) == kind {
            n += 1;
        }
        k += 1;
    }
    n
}

pub(crate) fn trace_line(i: &Interpreter, k: usize) -> u64 {
    match &i.output[k] {
        InterpreterOutput::Trace(n) => *n,
        _ => u64::MAX,
    }
}

pub(crate) fn pending_input(i: &Interpreter) -> bool {
    i.input.is_some()
}

pub(crate) fn any_small() -> f64 {
    pick_num(kani::any())
}

/// One host turn; returns (error code, line number of the error location) on error.
pub(crate) fn turn_err(i: &mut Interpreter) -> Option<(u8, Option<u64>)> {
    let r = i.continue_evaluating();
    let out = match &r {
        Ok(()) => None,
        Err(e) => Some((err_code(&e.error), err_line(e))),
    };
    core::mem::forget(r);
    out
}

pub(crate) fn err_line(e: &crate::TracedInterpreterError) -> Option<u64> {
    match e.location {
        Some(loc) => match loc.line {
            crate::program::ProgramLine::Line(n) => Some(n),
            crate::program::ProgramLine::Immediate => None,
        },
        None => None,
    }
}

pub(crate) fn cmd_err(i: &mut Interpreter, text: &'static str) -> Option<(u8, Option<u64>, bool)> {
    let r = i.start_evaluating(text);
    let out = match &r {
        Ok(()) => None,
        Err(e) => Some((err_code(&e.error), err_line(e), e.location.is_some())),
    };
    core::mem::forget(r);
    out
}

/// Error value -> caret rendering must not panic (C01).
pub(crate) fn turn_render(i: &mut Interpreter) -> Option<u8> {
    let r = i.continue_evaluating();
    let code = match &r {
        Ok(()) => None,
        Err(e) => {
            assert!(e.location.is_some(), "c01: an error delivered by the interpreter carries a location");
            let lines = e.get_line_with_pointer_caret(i, None::<&str>);
            core::mem::forget(lines);
            Some(err_code(&e.error))
        }
    };
    core::mem::forget(r);
    code
}

pub(crate) fn strvar_is(i: &Interpreter, name: &str, expect: &str) -> bool {
    match i.variables.get(&sym(name)) {
        Value::String(s) => s.as_str().as_bytes() == expect.as_bytes(),
        Value::Number(_) => false,
    }
}

pub(crate) fn var_is_number(i: &Interpreter, name: &str) -> bool {
    matches!(i.variables.get(&sym(name)), Value::Number(_))
}

pub(crate) fn cell(i: &mut Interpreter, name: &str, idx: usize) -> f64 {
    let r = i.arrays.get_value_at_index(&sym(name), &vec![idx]);
    let v = match &r {
        Ok(Value::Number(x)) => *x,
        _ => f64::NAN,
    };
    core::mem::forget(r);
    v
}

/// Model of the reply/DATA item parser for the reply menu used by the INPUT harnesses
/// (texts of at most 3 bytes: `d`, `x`, ``, `d,e`, `d:e`, `"x"`), where d,e are ASCII digits and
/// x an ASCII letter.  Natively (replay) the real parser runs on the same text.
fn ascii_string(bytes: Vec<u8>) -> String {
    // ASCII by construction; avoids char::encode_utf8's width branches on symbolic bytes
    unsafe { String::from_utf8_unchecked(bytes) }
}

/// The reply class the harness is about to provide (structure: concrete per harness); the model
/// parser dispatches on it instead of on the (symbolic) characters, so that symex sees one shape.
pub(crate) static mut REPLY_CLASS: u8 = 0;

pub(crate) fn stub_parse_data_until_colon(
    value: &str,
    _sm: Option<&mut crate::string_manager::StringManager>,
) -> (Vec<DataElement>, usize) {
    let b = value.as_bytes();
    let class = unsafe { REPLY_CLASS };
    let number = |c: u8| DataElement::Number((c - b'0') as f64);
    let text = |c: u8| DataElement::String(std::rc::Rc::new(ascii_string(vec![c])));
    match class {
        0 => {
            kani::assume(b.len() == 1 && b[0].is_ascii_digit());
            (vec![number(b[0])], 1)
        }
        1 => {
            kani::assume(b.len() == 1 && b[0].is_ascii_uppercase());
            (vec![text(b[0])], 1)
        }
        2 => {
            kani::assume(b.len() == 0);
            (vec![DataElement::String(std::rc::Rc::new(String::new()))], 0)
        }
        3 => {
            kani::assume(b.len() == 3 && b[1] == b',' && b[0].is_ascii_digit() && b[2].is_ascii_digit());
            (vec![number(b[0]), number(b[2])], 3)
        }
        4 => {
            kani::assume(b.len() == 3 && b[1] == b':' && b[0].is_ascii_digit());
            (vec![number(b[0])], 1)
        }
        _ => {
            kani::assume(b.len() == 3 && b[0] == b'"' && b[2] == b'"');
            (vec![text(b[1])], 3)
        }
    }
}

/// Reply text for the menu: class 0 `d`, 1 `x`, 2 empty, 3 `d,e`, 4 `d:e`, 5 `"x"`.
pub(crate) fn reply_text(class: u8, d: u8, e: u8, x: u8) -> String {
    unsafe {
        REPLY_CLASS = class;
    }
    match class {
        0 => ascii_string(vec![b'0' + d]),
        1 => ascii_string(vec![b'A' + x]),
        2 => String::new(),
        3 => ascii_string(vec![b'0' + d, b',', b'0' + e]),
        4 => ascii_string(vec![b'0' + d, b':', b'0' + e]),
        _ => ascii_string(vec![b'"', b'A' + x, b'"']),
    }
}

pub(crate) fn stub_token_display(_t: &Token, _f: &mut std::fmt::Formatter<'_>) -> std::fmt::Result {
    Ok(())
}

pub(crate) fn stub_f64_to_string(_x: &f64) -> String {
    String::new()
}

/// What the RUN command does after command detection (interpreter.rs: "RUN" arm), without the
/// text-level command matching (to_uppercase / split / string compares), which C10 exercises.
pub(crate) fn run_tok(i: &mut Interpreter) -> Option<u8> {
    assert!(i.state == InterpreterState::Idle);
    i.program.set_and_goto_immediate_line(vec![]);
    i.variables = Variables::default();
    i.arrays = Arrays::default();
    i.program.run_from_first_numbered_line();
    let r = i.run_next_statement();
    let r = i.postprocess_result(r);
    let code = match &r {
        Ok(()) => None,
        Err(e) => Some(err_code(&e.error)),
    };
    core::mem::forget(r);
    code
}

pub(crate) fn run_tok_err(i: &mut Interpreter) -> Option<(u8, Option<u64>, bool)> {
    assert!(i.state == InterpreterState::Idle);
    i.program.set_and_goto_immediate_line(vec![]);
    i.variables = Variables::default();
    i.arrays = Arrays::default();
    i.program.run_from_first_numbered_line();
    let r = i.run_next_statement();
    let r = i.postprocess_result(r);
    let out = match &r {
        Ok(()) => None,
        Err(e) => Some((err_code(&e.error), err_line(e), e.location.is_some())),
    };
    core::mem::forget(r);
    out
}

/// After a turn that executed a jump (GOTO/GOSUB/THEN n -- whose target went through `as u64` and is
/// therefore symbolic-by-assumption, see verif_support::kn): assert where execution must be, then
/// re-concretise the location so that later turns run under concrete structure.
pub(crate) fn settle(i: &mut Interpreter, line: u64, tok: usize, msg: &'static str) {
    assert!(pa::at(&i.program, line, tok), "{}", msg);
    pa::set_location(&mut i.program, line, tok);
}

/// RUN-like start (fresh variables, reset runtime state) but beginning at `line` instead of the first
/// line.  Used because jump targets must be line 0 (CBMC folds `(constant f64) as u64` to 0, which is
/// only right for 0.0 -- see verif_support::kn), so subroutines / jump targets sit at line 0.
pub(crate) fn start_at(i: &mut Interpreter, line: u64) -> Option<(u8, Option<u64>)> {
    assert!(i.state == InterpreterState::Idle);
    i.program.set_and_goto_immediate_line(vec![]);
    i.variables = Variables::default();
    i.arrays = Arrays::default();
    i.program.run_from_first_numbered_line();
    pa::set_location(&mut i.program, line, 0);
    let r = i.run_next_statement();
    let r = i.postprocess_result(r);
    let out = match &r {
        Ok(()) => None,
        Err(e) => Some((err_code(&e.error), err_line(e))),
    };
    core::mem::forget(r);
    out
}

/// Execute exactly the statement at the cursor (statement evaluator + the interpreter's error
/// post-processing), without run_next_statement's tail that advances to the following line.  Used for
/// the last, data-dependent statement of a scenario: its post-state is a merge of several outcomes
/// and is only *read* afterwards (running more interpreter code on a merged location is what
/// exhausts memory; the tail itself is exercised by the concrete-control scenarios).
pub(crate) fn stmt(i: &mut Interpreter) -> Option<(u8, Option<u64>)> {
    assert!(i.state == InterpreterState::Running);
    let mut r = StatementEvaluator::new(i).evaluate_statement();
    // the body of Interpreter::postprocess_result, step by step: calling the generic function
    // itself on an error that crossed the expression tiers exhausts memory in symex (measured:
    // > 8 GB), while its two steps called directly take seconds.  postprocess_result proper is
    // executed by every `turn()` / `run_tok()` of the multi-turn scenarios.
    if let Err(err) = &mut r {
        i.program.populate_error_location(err);
        i.return_to_idle_state();
    }
    let out = match &r {
        Ok(()) => None,
        Err(e) => Some((err_code(&e.error), err_line(e))),
    };
    core::mem::forget(r);
    out
}

/// Position the cursor at (line, tok) in running state, as if earlier turns had brought it there.
pub(crate) fn resume_at(i: &mut Interpreter, line: u64, tok: usize) {
    pa::set_location(&mut i.program, line, tok);
    i.state = InterpreterState::Running;
}

pub(crate) fn rng_seed(i: &Interpreter) -> u64 {
    crate::random::verif_raccess::seed_of(&i.rng)
}

/// An immediate line whose single statement is executed through `stmt` (used where the statement
/// fails inside expression evaluation: propagating such an error through run_next_statement's `?`
/// exhausts memory in symex, see `stmt`).
pub(crate) fn immediate_stmt(i: &mut Interpreter, toks: Vec<Token>) -> Option<u8> {
    assert!(i.state == InterpreterState::Idle);
    i.program.set_and_goto_immediate_line(vec![]);
    i.program.set_and_goto_immediate_line(toks);
    i.state = InterpreterState::Running;
    match stmt(i) {
        None => {
            i.state = InterpreterState::Idle;
            None
        }
        Some((c, _)) => Some(c),
    }
}
