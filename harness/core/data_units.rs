// @anchor crate=abasic-core src=src/data.rs
//
// C12 (whitespace around DATA items), C08 (reply parser contract), C14 (renderer is the inverse of
// the parser), C01 (never panics) on the DATA item parser.
#![allow(dead_code)]
use super::*;

/// model of `<f64 as FromStr>::from_str` for the texts these harnesses can produce: ASCII digits
/// with at most one dot (exact: m / 10^k, both exactly representable); anything else is an error.
/// Letters are restricted to A..H so that `inf` / `nan` / `infinity` (which std accepts) cannot occur.
pub(crate) fn stub_parse_f64(s: &str) -> Result<f64, std::num::ParseFloatError> {
    let b = s.as_bytes();
    let mut m: u64 = 0;
    let mut k: u32 = 0;
    let mut seen_dot = false;
    let mut digits = 0;
    let mut ok = b.len() > 0 && b.len() <= 6;
    let mut i = 0;
    while i < b.len() && i < 6 {
        if b[i] >= b'0' && b[i] <= b'9' {
            m = m * 10 + (b[i] - b'0') as u64;
            digits += 1;
            if seen_dot {
                k += 1;
            }
        } else if b[i] == b'.' && !seen_dot {
            seen_dot = true;
        } else {
            ok = false;
        }
        i += 1;
    }
    if ok && digits > 0 {
        let mut d = 1.0f64;
        let mut j = 0;
        while j < k {
            d *= 10.0;
            j += 1;
        }
        Ok(m as f64 / d)
    } else {
        // FloatErrorKind::Invalid; the value is never inspected by the code under test
        Err(unsafe { std::mem::transmute::<u8, std::num::ParseFloatError>(1) })
    }
}

pub(crate) fn same_elements(a: &Vec<DataElement>, b: &Vec<DataElement>) -> bool {
    if a.len() != b.len() {
        return false;
    }
    let mut i = 0;
    while i < a.len() {
        let same = match (&a[i], &b[i]) {
            (DataElement::Number(x), DataElement::Number(y)) => x.to_bits() == y.to_bits(),
            (DataElement::String(x), DataElement::String(y)) => x.as_bytes() == y.as_bytes(),
            _ => false,
        };
        if !same {
            return false;
        }
        i += 1;
    }
    true
}

