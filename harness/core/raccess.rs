// @anchor crate=abasic-core src=src/random.rs
#![allow(dead_code)]
use super::*;
pub(crate) fn seed_of(r: &Rng) -> u64 {
    r.seed
}
/// one step of a fresh generator started from `seed`: (new state, value) -- the unit harnesses in
/// harness/core/random.rs decide this function against the documented recurrence for every seed
pub(crate) fn one_step_from(seed: u64) -> (u64, f64) {
    let mut r = Rng::new(seed);
    let v = r.random();
    (r.seed, v)
}
