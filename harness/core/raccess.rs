// @anchor crate=abasic-core src=src/random.rs
#![allow(dead_code)]
use super::*;
pub(crate) fn seed_of(r: &Rng) -> u64 {
    r.seed
}
