// @anchor crate=abasic-core src=src/line_number_parser.rs
//
// C04 (line-number prefix parsing incl. leading zeros and the u64 extremes), C01 (never panics).
use super::*;

fn is_ws(b: u8) -> bool {
    b == b' ' || b == b'\t' || b == b'\n' || b == b'\r' || b == 0x0c
}

fn check<const N: usize>(digits_only_after: usize) {
    let buf: [u8; N] = kani::any();
    let len: usize = kani::any();
    kani::assume(len <= N);
    let mut i = 0;
    while i < N {
        kani::assume(buf[i] < 128);
        if i >= digits_only_after {
            kani::assume(buf[i] >= b'0' && buf[i] <= b'9');
        }
        i += 1;
    }
    let s = unsafe { std::str::from_utf8_unchecked(&buf[..len]) };
    let got = parse_line_number(s);
    // reference
    let mut p = 0;
    while p < len && is_ws(buf[p]) {
        p += 1;
    }
    let start = p;
    let mut value: u128 = 0;
    let mut overflow = false;
    while p < len && buf[p] >= b'0' && buf[p] <= b'9' {
        value = value * 10 + (buf[p] - b'0') as u128;
        if value > u64::MAX as u128 {
            overflow = true;
            value = u64::MAX as u128 + 1; // saturate: keeps the reference itself from overflowing
        }
        p += 1;
    }
    if p == start || overflow {
        assert!(got.is_none(), "c04: no digits, or a value above 18446744073709551615, is not a line number");
    } else {
        assert!(got == Some((value as u64, p)), "c04: value is the decimal value (leading zeros and blanks ignored); end is the index after the last digit");
    }
    kani::cover!(got.is_some() && start > 0, "reached_leading_blanks");
    kani::cover!(got.is_some() && p - start > 1 && buf[start] == b'0', "reached_leading_zero");
    kani::cover!(overflow, "reached_overflow");
    kani::cover!(got == Some((u64::MAX, len)), "reached_u64_max");
}

// @verif prop=C04,C01 tier=quick timeout=600 mem=4000 cost=60 clause="parse_line_number on any 8 ASCII bytes: blanks skipped, decimal value, None without digits, end index exact"
// @verif sample="any 8 ASCII bytes, any length <= 8 (e.g. ' 015 X', '7', 'PRINT')" bounds="8 bytes (overflow unreachable at this length: see the 21-digit harness)" nocover=1
#[kani::proof]
#[kani::unwind(10)]
fn c04_parse_line_number_8_bytes() {
    check::<8>(8);
}

// @verif prop=C04,C01 tier=quick timeout=900 mem=6000 cost=120 clause="parse_line_number on 1 free byte + up to 20 digits: exact at 18446744073709551615, None above it"
// @verif sample="1 arbitrary ASCII byte followed by up to 20 digits (covers u64::MAX and every 20-digit overflow)" bounds="21 bytes, bytes 1.. are digits" nocover=1
#[kani::proof]
#[kani::unwind(23)]
fn c04_parse_line_number_21_digits() {
    check::<21>(1);
}
