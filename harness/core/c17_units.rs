// @anchor crate=abasic-core src=src/interpreter.rs needs=verif_support,verif_paccess,verif_raccess,verif_isupport
//
// C17: the warning helpers, entered directly (array access through the statement / expression
// evaluators exhausts memory even for concrete programs; those scenarios are in the thorough tier).
use super::*;
use crate::interpreter::verif_isupport::*;

// @verif prop=C17 tier=quick timeout=600 mem=5000 cost=40 clause="the undeclared-array warning is issued exactly when warnings are on and the array does not exist yet; issuing it touches nothing else (no array is created, state and variables unchanged); it names the executing line"
// @verif sample="flags (t,w) any booleans; array A present or absent (symbolic); at numbered line 10 or in immediate mode" bounds="one call"
#[kani::proof]
#[kani::unwind(14)]
#[kani::stub(std::backtrace::Backtrace::capture, crate::verif_support::stub_backtrace_capture)]
#[kani::stub(alloc::fmt::format, crate::verif_support::stub_format)]
#[kani::stub(<crate::symbol::Symbol as std::fmt::Display>::fmt, crate::verif_support::stub_symbol_display)]
fn c17_array_warning_unit() {
    let t: bool = kani::any();
    let w: bool = kani::any();
    let present: bool = kani::any();
    let numbered: bool = kani::any();
    let mut i = Interpreter::default();
    i.enable_tracing = t;
    i.enable_warnings = w;
    line(&mut i, 10, vec![Token::End]);
    if present {
        let r = i.arrays.create(sym("A"), vec![3]);
        kani::assume(r.is_ok());
        core::mem::forget(r);
    }
    if numbered {
        i.program.run_from_first_numbered_line();
    }
    i.maybe_log_warning_about_undeclared_array_use(&sym("A"));
    let expect = w && !present;
    assert!(out_len(&i) == if expect { 1 } else { 0 }, "c17: a warning exactly when warnings are on and the array does not exist yet");
    if expect {
        assert!(out_kind(&i, 0) == O_WARNING);
        assert!(matches!(&i.output[0], InterpreterOutput::Warning(_, l) if *l == if numbered { Some(10) } else { None }), "c17: the warning names the executing line");
    }
    assert!(has_array(&i, "A") == present, "c17: warning about an array does not create it");
    assert!(st(&i) == ST_IDLE);
    kani::cover!(expect && numbered, "reached_warning_on_numbered_line");
    kani::cover!(!expect && w, "reached_no_warning_for_existing_array");
    core::mem::forget(i);
}

// @verif prop=C17 tier=quick timeout=600 mem=5000 cost=40 clause="warn() emits iff warnings are enabled, with the executing line; nothing else changes"
// @verif sample="flags any; warn(text) at line 10 / immediate" bounds="one call"
#[kani::proof]
#[kani::unwind(14)]
fn c17_warn_gate_unit() {
    let w: bool = kani::any();
    let numbered: bool = kani::any();
    let mut i = Interpreter::default();
    i.enable_warnings = w;
    line(&mut i, 10, vec![Token::End]);
    if numbered {
        i.program.run_from_first_numbered_line();
    }
    i.warn("X");
    assert!(out_len(&i) == if w { 1 } else { 0 }, "c17: warnings are gated on enable_warnings");
    if w {
        assert!(matches!(&i.output[0], InterpreterOutput::Warning(_, l) if *l == if numbered { Some(10) } else { None }));
    }
    kani::cover!(w && numbered, "reached_emitted");
    core::mem::forget(i);
}
