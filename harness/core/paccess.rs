// @anchor crate=abasic-core src=src/program.rs
//
// Read-only accessors to Program's private runtime state for the session-level harnesses
// (a child module can see private fields; nothing in /repo is edited).
#![allow(dead_code)]
use super::*;

pub(crate) fn stack_len(p: &Program) -> usize {
    p.stack.len()
}
pub(crate) fn loop_len(p: &Program) -> usize {
    p.loop_stack.len()
}
pub(crate) fn loop_symbol_is(p: &Program, i: usize, name: &str) -> bool {
    p.loop_stack[i].symbol.as_str() == name
}
pub(crate) fn loop_to(p: &Program, i: usize) -> f64 {
    p.loop_stack[i].to_value
}
pub(crate) fn loop_step(p: &Program, i: usize) -> f64 {
    p.loop_stack[i].step_value
}
pub(crate) fn breakpoint(p: &Program) -> Option<NumberedProgramLocation> {
    p.breakpoint
}
pub(crate) fn location(p: &Program) -> ProgramLocation {
    p.location
}
pub(crate) fn functions_len(p: &Program) -> usize {
    p.functions.len()
}
pub(crate) fn data_iterator_started(p: &Program) -> bool {
    p.data_iterator.is_some()
}
pub(crate) fn immediate_len(p: &Program) -> usize {
    p.immediate_line.len()
}
pub(crate) fn has_line(p: &Program, n: u64) -> bool {
    p.numbered_lines.has(n)
}
pub(crate) fn frame_return_location(p: &Program, i: usize) -> ProgramLocation {
    p.stack[i].return_location
}
/// at numbered line `line`, token `tok`
pub(crate) fn at(p: &Program, line: u64, tok: usize) -> bool {
    p.location.line == ProgramLine::Line(line) && p.location.token_index == tok
}
pub(crate) fn at_immediate(p: &Program) -> bool {
    p.location.line == ProgramLine::Immediate
}
/// push `n` synthetic GOSUB frames (return location: line `line`, token 0)
pub(crate) fn push_frames(p: &mut Program, n: usize, line: u64) {
    let mut i = 0;
    while i < n {
        p.stack.push(StackFrame {
            return_location: ProgramLocation { line: ProgramLine::Line(line), token_index: 0 },
            variables: Variables::default(),
        });
        i += 1;
    }
}
/// push a synthetic open loop
pub(crate) fn push_loop(p: &mut Program, name: &str, line: u64, tok: usize, to: f64, step: f64) {
    p.loop_stack.push(LoopInfo {
        location: ProgramLocation { line: ProgramLine::Line(line), token_index: tok },
        symbol: crate::verif_support::sym(name),
        to_value: to,
        step_value: step,
    });
}
pub(crate) fn set_breakpoint(p: &mut Program, line: u64, tok: usize) {
    p.breakpoint = Some(NumberedProgramLocation::new(line, tok));
}
pub(crate) fn set_location(p: &mut Program, line: u64, tok: usize) {
    p.location = ProgramLocation { line: ProgramLine::Line(line), token_index: tok };
}
/// push one GOSUB frame returning to (line, tok)
pub(crate) fn push_frame_at(p: &mut Program, line: u64, tok: usize) {
    p.stack.push(StackFrame {
        return_location: ProgramLocation { line: ProgramLine::Line(line), token_index: tok },
        variables: Variables::default(),
    });
}
/// register a function definition (as DEF would) whose body starts at (line, tok)
pub(crate) fn add_function(p: &mut Program, name: &str, arg: &str, line: u64, tok: usize) {
    p.functions.insert(
        crate::verif_support::sym(name),
        FunctionDefinition { arguments: vec![crate::verif_support::sym(arg)], location: NumberedProgramLocation::new(line, tok) },
    );
}
pub(crate) fn loop_symbol_len(p: &Program, i: usize) -> usize {
    p.loop_stack[i].symbol.as_str().len()
}
pub(crate) fn loops_pairwise_distinct(p: &Program) -> bool {
    let mut a = 0;
    while a < p.loop_stack.len() {
        let mut b = a + 1;
        while b < p.loop_stack.len() {
            if p.loop_stack[a].symbol == p.loop_stack[b].symbol {
                return false;
            }
            b += 1;
        }
        a += 1;
    }
    true
}
/// push `n` open loops with pairwise distinct two-letter names (AA, AB, ...), none of them `skip`
pub(crate) fn push_distinct_loops(p: &mut Program, n: usize) {
    let mut k = 0;
    while k < n {
        let mut s = String::new();
        s.push((b'A' + (k / 26) as u8) as char);
        s.push((b'A' + (k % 26) as u8) as char);
        p.loop_stack.push(LoopInfo {
            location: ProgramLocation { line: ProgramLine::Line(10), token_index: 0 },
            symbol: std::rc::Rc::new(s).into(),
            to_value: 1.0,
            step_value: 1.0,
        });
        k += 1;
    }
}
/// same stored lines (numbers and tokens)?
pub(crate) fn same_lines(a: &Program, b: &Program) -> bool {
    let la = a.numbered_lines.list_tokens();
    let lb = b.numbered_lines.list_tokens();
    if la.len() != lb.len() {
        return false;
    }
    let mut i = 0;
    let mut same = true;
    while i < la.len() {
        if la[i].0 != lb[i].0 || la[i].1 != lb[i].1 {
            same = false;
        }
        i += 1;
    }
    core::mem::forget(la);
    core::mem::forget(lb);
    same
}
