// @anchor crate=abasic-core src=src/arrays.rs
//
// C16 (cell-count cap, product of dimensions), C01 (array size / subscript arithmetic never
// panics), C03 (cell addressing is a bijection; unset cells read as 0).
use super::*;

const P_CAP: u128 = 10000; // from the property text

fn ref_total(dims: &[usize]) -> u128 {
    // exact product of (max index + 1); saturates far above the cap instead of wrapping
    let mut total: u128 = 1;
    let mut i = 0;
    while i < dims.len() {
        let size = dims[i] as u128 + 1;
        total = if total > P_CAP { total } else { total * size };
        i += 1;
    }
    total
}

fn check_new(dims: &[usize]) {
    let res = DimArray::<f64>::new(dims);
    let total = ref_total(dims);
    match &res {
        Ok(arr) => {
            assert!(total <= P_CAP, "c16: an array above 10000 cells must be refused");
            assert!(arr.values.len() as u128 == total, "c16: cell count equals the product of (max index + 1)");
            assert!(arr.dimensions.len() == dims.len(), "c16: one dimension per subscript");
            kani::cover!(total == P_CAP, "reached_exactly_cap");
        }
        Err(e) => {
            assert!(total > P_CAP, "c16: an array within the cap must be created");
            assert!(*e == InterpreterError::OutOfMemory(OutOfMemoryError::ArrayTooLarge), "c16: over-cap is OUT OF MEMORY (ARRAY TOO LARGE)");
            kani::cover!(dims[0] == usize::MAX, "reached_usize_max_dim");
        }
    }
    core::mem::forget(res);
}

// @verif prop=C16,C01 tier=quick timeout=300 clause="DimArray::new, 1 dimension, every usize maximum: no overflow; Ok iff (d+1) <= 10000; len == d+1"
// @verif sample="DIM A(d) with d = any usize (incl. usize::MAX, 2^32-1, 9999, 10000)" bounds="1 dimension, all usize"
#[kani::proof]
#[kani::unwind(3)]
fn c16_dim_new_1d() {
    let d: [usize; 1] = kani::any();
    check_new(&d);
}

// @verif prop=C16,C01 tier=quick timeout=300 clause="DimArray::new, 2 dimensions, every pair of usize maxima (the DIM A(4294967295,4294967295) shape)"
// @verif sample="DIM A(d0,d1), d0,d1 = any usize" bounds="2 dimensions, all usize"
#[kani::proof]
#[kani::unwind(4)]
fn c16_dim_new_2d() {
    let d: [usize; 2] = kani::any();
    check_new(&d);
}

// @verif prop=C16,C01 tier=quick timeout=600 clause="DimArray::new, 3 dimensions, every triple of usize maxima"
// @verif sample="DIM A(d0,d1,d2), all any usize" bounds="3 dimensions, all usize"
#[kani::proof]
#[kani::unwind(5)]
fn c16_dim_new_3d() {
    let d: [usize; 3] = kani::any();
    check_new(&d);
}

// @verif prop=C16,C01 tier=thorough timeout=1200 clause="DimArray::new, 4 dimensions, every 4-tuple of usize maxima"
// @verif sample="DIM A(d0,d1,d2,d3), all any usize" bounds="4 dimensions, all usize"
#[kani::proof]
#[kani::unwind(6)]
fn c16_dim_new_4d() {
    let d: [usize; 4] = kani::any();
    check_new(&d);
}

// @verif prop=C16,C01 tier=quick timeout=120 clause="zero subscripts is BAD SUBSCRIPT, not a panic"
// @verif sample="DimArray::new(&[])" bounds="-"
#[kani::proof]
#[kani::unwind(2)]
fn c16_dim_new_0d() {
    let res = DimArray::<f64>::new(&[]);
    assert!(matches!(res, Err(InterpreterError::BadSubscript)), "c16: no dimensions is BAD SUBSCRIPT");
    kani::cover!(true, "reached_end");
    core::mem::forget(res);
}

/// An arbitrary well-formed array as `new` produces it (C16 invariant: len == product <= cap).
fn any_array<const N: usize>() -> (DimArray<f64>, [usize; N]) {
    any_array_upto::<N>(9999)
}

fn any_array_upto<const N: usize>(limit: usize) -> (DimArray<f64>, [usize; N]) {
    let maxima: [usize; N] = kani::any();
    let mut i = 0;
    while i < N {
        kani::assume(maxima[i] <= limit);
        i += 1;
    }
    let res = DimArray::<f64>::new(&maxima);
    kani::assume(res.is_ok());
    (res.unwrap(), maxima)
}

fn check_addressing<const N: usize>() {
    check_addressing_upto::<N>(9999)
}

fn check_addressing_upto<const N: usize>(limit: usize) {
    let (mut arr, maxima) = any_array_upto::<N>(limit);
    let i: [usize; N] = kani::any();
    let j: [usize; N] = kani::any();
    let li = arr.get_linear_index(&i);
    let lj = arr.get_linear_index(&j);
    let mut i_in = true;
    let mut j_in = true;
    let mut same = true;
    let mut k = 0;
    while k < N {
        i_in = i_in && i[k] <= maxima[k];
        j_in = j_in && j[k] <= maxima[k];
        same = same && i[k] == j[k];
        k += 1;
    }
    match (&li, &lj) {
        (Ok(a), Ok(b)) => {
            assert!(i_in && j_in, "c03: a subscript above its maximum must be BAD SUBSCRIPT");
            assert!(*a < arr.values.len() && *b < arr.values.len(), "c01: linear index within the cell vector");
            assert!((*a == *b) == same, "c03: addressing is injective (distinct subscripts, distinct cells)");
            kani::cover!(!same, "reached_two_distinct_cells");
        }
        (Err(e), _) => {
            assert!(!i_in, "c03: an in-range subscript must be accepted");
            assert!(*e == InterpreterError::BadSubscript, "c03: out of range is BAD SUBSCRIPT");
        }
        (_, Err(e)) => {
            assert!(!j_in, "c03: an in-range subscript must be accepted");
            assert!(*e == InterpreterError::BadSubscript, "c03: out of range is BAD SUBSCRIPT");
        }
    }
    // set / get round trip through the public accessors
    let v: f64 = kani::any();
    kani::assume(!v.is_nan());
    let before_j = arr.get(&j);
    let set_res = arr.set(&i, v);
    assert!(set_res.is_ok() == i_in, "c03: set succeeds exactly for in-range subscripts");
    let after_j = arr.get(&j);
    match (&before_j, &after_j) {
        (Ok(b), Ok(a)) => {
            assert!(*b == 0.0, "c03: an unset numeric cell reads as 0");
            if same && i_in {
                assert!(*a == v, "c03: a cell reads back what was stored");
            } else {
                assert!(*a == 0.0, "c03: storing to one cell leaves every other cell unchanged");
            }
        }
        (Err(_), Err(_)) => assert!(!j_in, "c03: get fails only out of range"),
        _ => panic!("c03: get changed its verdict across a set"),
    }
    core::mem::forget(li);
    core::mem::forget(lj);
    core::mem::forget(before_j);
    core::mem::forget(after_j);
    core::mem::forget(set_res);
    core::mem::forget(arr);
}

// @verif prop=C03,C01,C16 tier=quick timeout=300 clause="1-D addressing: in-range iff idx<=max; injective; set/get round trip; unset reads 0"
// @verif sample="array maxima any <= 9999 (cap respected), two subscripts any usize, value any non-NaN f64" bounds="1 dimension; all subscripts"
#[kani::proof]
#[kani::unwind(3)]
fn c03_array_addressing_1d() {
    check_addressing::<1>();
}

// @verif prop=C03,C01,C16 tier=quick timeout=600 clause="2-D addressing bijection and set/get frame condition on small arrays"
// @verif sample="maxima (m0,m1) any <= 3, subscripts (i0,i1),(j0,j1) any usize, value any non-NaN f64" bounds="2 dimensions, maxima <= 3; all subscripts"
#[kani::proof]
#[kani::unwind(4)]
fn c03_array_addressing_2d_small() {
    check_addressing_upto::<2>(3);
}

// @verif prop=C03,C01,C16 tier=quick timeout=900 clause="3-D addressing bijection and set/get frame condition on small arrays"
// @verif sample="maxima (m0,m1,m2) any <= 2, two subscript triples any usize" bounds="3 dimensions, maxima <= 2; all subscripts"
#[kani::proof]
#[kani::unwind(5)]
fn c03_array_addressing_3d_small() {
    check_addressing_upto::<3>(2);
}

// @verif prop=C03,C01,C16 tier=thorough timeout=1200 clause="2-D addressing bijection and set/get frame condition"
// @verif sample="maxima (m0,m1) any with (m0+1)(m1+1)<=10000, subscripts (i0,i1),(j0,j1) any usize" bounds="2 dimensions; all subscripts"
#[kani::proof]
#[kani::unwind(4)]
fn c03_array_addressing_2d() {
    check_addressing::<2>();
}

// @verif prop=C03,C01,C16 tier=thorough timeout=1800 clause="3-D addressing bijection and set/get frame condition"
// @verif sample="maxima (m0,m1,m2) any within the cap, two subscript triples any usize" bounds="3 dimensions; all subscripts"
#[kani::proof]
#[kani::unwind(5)]
fn c03_array_addressing_3d() {
    check_addressing::<3>();
}

// @verif prop=C03,C01 tier=quick timeout=300 clause="wrong number of subscripts is BAD SUBSCRIPT (never a panic or a wrong cell)"
// @verif sample="2-D array, 1 or 3 subscripts, any values" bounds="arity mismatch 1 and 3 against 2"
#[kani::proof]
#[kani::unwind(5)]
fn c03_array_arity_mismatch() {
    let (arr, _m) = any_array::<2>();
    let one: [usize; 1] = kani::any();
    let three: [usize; 3] = kani::any();
    let r1 = arr.get_linear_index(&one);
    let r3 = arr.get_linear_index(&three);
    assert!(matches!(r1, Err(InterpreterError::BadSubscript)), "c03: too few subscripts is BAD SUBSCRIPT");
    assert!(matches!(r3, Err(InterpreterError::BadSubscript)), "c03: too many subscripts is BAD SUBSCRIPT");
    kani::cover!(true, "reached_end");
    core::mem::forget(r1);
    core::mem::forget(r3);
    core::mem::forget(arr);
}
