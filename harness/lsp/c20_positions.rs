// @anchor crate=abasic-lsp src=src/main.rs
//
// C20 (position clause only): the language server's real `get_semantic_tokens` and
// `analyze_source_file` on concrete documents: delta arithmetic does not underflow, token types
// come from the advertised legend, every token and diagnostic lies inside its line measured in
// UTF-16 units, tokens are ordered and non-overlapping, one diagnostic per mappable message.
// Server liveness over JSON-RPC is process-level and outside (MANIFEST not_applicable note).
use super::*;

fn utf16_len(s: &str) -> u32 {
    s.encode_utf16().count() as u32
}

fn check_doc(text: &str) {
    let analyzer = SourceFileAnalyzer::analyze(text.to_string());
    let nlines = analyzer.source_file_lines().len() as u32;
    let toks = get_semantic_tokens(&analyzer);
    let mut line: u32 = 0;
    let mut col: u32 = 0;
    let mut prev_end: u32 = 0;
    let mut k = 0;
    while k < toks.data.len() {
        let t = &toks.data[k];
        if t.delta_line > 0 {
            line += t.delta_line;
            col = t.delta_start;
            prev_end = 0;
        } else {
            col += t.delta_start;
        }
        assert!(line < nlines, "c20: a semantic token lies on an existing line");
        assert!((t.token_type as usize) < TOKEN_TYPES.len(), "c20: token type comes from the advertised legend");
        assert!(col >= prev_end, "c20: semantic tokens are ordered and do not overlap");
        let limit = utf16_len(&analyzer.source_file_lines()[line as usize]);
        assert!(col + t.length <= limit, "c20: a semantic token lies within its line measured in UTF-16 units");
        prev_end = col + t.length;
        k += 1;
    }
    let diags = analyze_source_file(&analyzer);
    let mut mappable = 0;
    let msgs = analyzer.messages();
    let mut m = 0;
    while m < msgs.len() {
        if analyzer.source_file_map().map_to_source(&msgs[m]).is_some() {
            mappable += 1;
        }
        m += 1;
    }
    assert!(diags.len() == mappable, "c20: one diagnostic per analyzer message");
    let mut d = 0;
    while d < diags.len() {
        let r = diags[d].range;
        assert!(r.start.line < nlines && r.end.line == r.start.line, "c20: a diagnostic lies on an existing line");
        let limit = utf16_len(&analyzer.source_file_lines()[r.start.line as usize]);
        assert!(r.start.character <= r.end.character && r.end.character <= limit, "c20: a diagnostic range lies within its line measured in UTF-16 units");
        d += 1;
    }
    kani::cover!(toks.data.len() > 0, "reached_some_tokens");
    core::mem::forget(diags);
    core::mem::forget(toks);
    core::mem::forget(analyzer);
}

fn stub_backtrace_capture() -> std::backtrace::Backtrace {
    std::backtrace::Backtrace::disabled()
}

fn stub_format(_args: std::fmt::Arguments<'_>) -> String {
    String::new()
}

fn stub_error_display(_e: &abasic_core::TracedInterpreterError, _f: &mut std::fmt::Formatter<'_>) -> std::fmt::Result {
    Ok(())
}

macro_rules! doc_harness {
    ($name:ident, $text:expr) => {
        #[kani::proof]
        #[kani::unwind(14)]
        #[kani::stub(std::backtrace::Backtrace::capture, stub_backtrace_capture)]
        #[kani::stub(alloc::fmt::format, stub_format)]
        #[kani::stub(<abasic_core::TracedInterpreterError as std::fmt::Display>::fmt, stub_error_display)]
        fn $name() {
            check_doc($text);
        }
    };
}

// @verif prop=C20 tier=quick timeout=1800 mem=12000 cost=500 concrete=1 unwind=14 clause="ASCII document with a warning and an error: tokens and diagnostics in bounds, ordered, legend types, one diagnostic per message" sample="10 X = 1 / 20 PRINT Y + (string) / 30 GOTO 99" bounds="this 3-line document"
doc_harness!(c20_doc_ascii, "10 X = 1\n20 PRINT Y + \"A\"\n30 GOTO 99");

// @verif prop=C20 tier=quick timeout=1800 mem=12000 cost=500 concrete=1 unwind=14 clause="document with a non-ASCII string before further tokens: columns must be UTF-16 units, not byte offsets" sample="10 PRINT (string e-acute) + 1" bounds="this 1-line document"
doc_harness!(c20_doc_non_ascii_before_token, "10 PRINT \"\u{e9}\" + 1");

// @verif prop=C20 tier=quick timeout=1800 mem=12000 cost=500 concrete=1 unwind=14 clause="the intermediate texts an editor produces around a redefinition: the analysis the server runs on every keystroke must not panic" sample="10 X = 1 / 10" bounds="this 2-line document"
doc_harness!(c20_doc_redefined_empty, "10 X = 1\n10");
